// Section code of c04_either.cpp (plain values) and c04_heap_either.cpp (thorough tier, heap-owning values).
// C04 (part 2) - fcppt::either combinators against the tagged-union model.
// Domain: all eithers over failure E = {e0,e1,e2} / success D = {d0,d1,d2} (6), nested eithers (9),
// ALL functions between the finite domains as tables (D->either<E,D> 216, D->D 27, E->E 27, E->R / D->R
// 27 each, DxD->D 19683), all containers of eithers / of either-returning functions up to length 4,
// all next()-scripts with up to 5 successes for loop, all throw/return behaviours for try_call.
// Oracle: integer model (0..2 = failure e, 3+d = success d) with the textbook definitions.
// Reading: as in c04_optional.cpp, "then _function(s) is returned" denotes exactly one evaluation.
#include "c04_common.hpp"

#include <fcppt/function.hpp>
#include <fcppt/unit.hpp>
#include <fcppt/either/apply.hpp>
#include <fcppt/either/bind.hpp>
#include <fcppt/either/comparison.hpp>
#include <fcppt/either/construct.hpp>
#include <fcppt/either/error.hpp>
#include <fcppt/either/error_from_optional.hpp>
#include <fcppt/either/failure_opt.hpp>
#include <fcppt/either/first_success.hpp>
#include <fcppt/either/from_optional.hpp>
#include <fcppt/either/join.hpp>
#include <fcppt/either/loop.hpp>
#include <fcppt/either/make_failure.hpp>
#include <fcppt/either/make_success.hpp>
#include <fcppt/either/map.hpp>
#include <fcppt/either/map_failure.hpp>
#include <fcppt/either/match.hpp>
#include <fcppt/either/monad.hpp>
#include <fcppt/either/no_error.hpp>
#include <fcppt/either/object.hpp>
#include <fcppt/either/sequence.hpp>
#include <fcppt/either/sequence_error.hpp>
#include <fcppt/either/success_opt.hpp>
#include <fcppt/either/to_exception.hpp>
#include <fcppt/either/try_call.hpp>
#include <fcppt/monad/bind.hpp>
#include <fcppt/monad/chain.hpp>
#include <fcppt/monad/return.hpp>
#include <fcppt/optional/object.hpp>

#include <deque>
#include <functional>
#include <list>
#include <vector>

using namespace c04;

namespace
{
using Q = Val<'q', 3>;
using ED = fcppt::either::object<E, D>;
using EED = fcppt::either::object<E, ED>;
using OD = fcppt::optional::object<D>;
using OE = fcppt::optional::object<E>;

ED mk(int e) { return e < 3 ? ED{E(e)} : ED{D(e - 3)}; }
template <typename S>
fcppt::either::object<E, S> mks(int e)
{
  using T = fcppt::either::object<E, S>;
  return e < 3 ? T{E(e)} : T{S(e - 3)};
}
template <typename F, typename S>
int code(fcppt::either::object<F, S> const &e)
{
  if (e.has_success() == e.has_failure()) return -2;
  if (e.has_success())
  {
    int const i = e.get_success_unsafe().idx();
    return i < 0 ? -1 : 3 + i;
  }
  int const i = e.get_failure_unsafe().idx();
  return i < 0 ? -1 : i;
}
EED mkee(int k) { return k < 3 ? EED{E(k)} : EED{mk(k - 3)}; }
OD mko(int o) { return o == 0 ? OD{} : OD{D(o - 1)}; }
template <typename V>
int ocode(fcppt::optional::object<V> const &o)
{
  if (!o.has_value()) return 0;
  int const i = o.get_unsafe().idx();
  return i < 0 ? -1 : 1 + i;
}

auto kleisli(i64 f, Calls &c)
{
  return [f, &c](D x) -> ED {
    int const i = x.idx();
    c.hit(i);
    return mk(i < 0 ? 0 : dig(f, i, 6));
  };
}
template <typename From, typename To>
auto table(i64 f, Calls &c)
{
  return [f, &c](From x) -> To {
    int const i = x.idx();
    c.hit(i);
    return To(i < 0 ? 0 : dig(f, i, 3));
  };
}
auto table2(i64 t, Calls2 &c)
{
  return [t, &c](D x, D y) -> D {
    int const i = x.idx(), j = y.idx();
    c.hit(i, j);
    return D((i < 0 || j < 0) ? 0 : dig(t, i * 3 + j, 3));
  };
}

#define KEYE(succ, base) ((succ) ? base "|success" : base "|failure")

// ------------------------------------------------------------------------------------------------
void bind_case(i64 e_, i64 f_, i64 g_)
{
  int const e = static_cast<int>(mod(e_, 6));
  i64 const f = mod(f_, 216), g = mod(g_, 216);
  bool const s = e >= 3;
  int const m1 = s ? dig(f, e - 3, 6) : e;
  int const m2 = m1 >= 3 ? dig(g, m1 - 3, 6) : m1;
  int const h1 = s ? e - 3 : -1, h2 = m1 >= 3 ? m1 - 3 : -1;
  count(s && !constant_table(f, 3, 6));
  both_categories([&](auto rv) {
    constexpr bool RV = decltype(rv)::value;
    {
      Calls cf;
      ED src = mk(e);
      ED const r = fcppt::either::bind(pass<RV>(src), kleisli(f, cf));
      chk(code(r) == m1, KEYE(s, "either::bind|result"), [&] { return std::string(cat_name(RV)) + " bind(" + ename(e) + ", f) = " + ename(code(r)) + ", expected " + ename(m1); });
      chk(cf.exactly(h1), KEYE(s, "either::bind|calls"), [&] { return std::string(cat_name(RV)) + " bind(" + ename(e) + ", f): " + cf.str() + ", expected " + held_str(h1); });
    }
    {
      Calls cf, cg;
      ED src = mk(e);
      ED const r = fcppt::either::bind(fcppt::either::bind(pass<RV>(src), kleisli(f, cf)), kleisli(g, cg));
      chk(code(r) == m2, KEYE(s, "either::bind|associativity-left"), [&] { return "bind(bind(" + ename(e) + ",f),g) = " + ename(code(r)) + ", expected " + ename(m2); });
      chk(cf.exactly(h1) && cg.exactly(h2), KEYE(s, "either::bind|associativity-left-calls"), [&] { return "f " + cf.str() + " g " + cg.str(); });
    }
    {
      Calls cf, cg;
      ED src = mk(e);
      auto const fk = kleisli(f, cf);
      auto const gk = kleisli(g, cg);
      ED const r = fcppt::either::bind(pass<RV>(src), [&](D x) { return fcppt::either::bind(fk(std::move(x)), gk); });
      chk(code(r) == m2, KEYE(s, "either::bind|associativity-right"), [&] { return "bind(" + ename(e) + ", x -> bind(f(x),g)) = " + ename(code(r)) + ", expected " + ename(m2); });
      chk(cf.exactly(h1) && cg.exactly(h2), KEYE(s, "either::bind|associativity-right-calls"), [&] { return "f " + cf.str() + " g " + cg.str(); });
    }
    if (g % 8 == 0)
    {
      Calls cf, cg;
      ED src = mk(e);
      ED const r = fcppt::monad::chain(pass<RV>(src), kleisli(f, cf), kleisli(g, cg));
      chk(code(r) == m2, KEYE(s, "monad::chain<either>|result"), [&] { return "chain(" + ename(e) + ",f,g) = " + ename(code(r)) + ", expected " + ename(m2); });
      chk(cf.exactly(h1) && cg.exactly(h2), KEYE(s, "monad::chain<either>|calls"), [&] { return "f " + cf.str() + " g " + cg.str(); });
    }
    if (g == 0)
    {
      Calls cf;
      ED src = mk(e);
      ED const r = fcppt::monad::bind(pass<RV>(src), kleisli(f, cf));
      chk(code(r) == m1, KEYE(s, "monad::bind<either>|result"), [&] { return "monad::bind(" + ename(e) + ", f) = " + ename(code(r)) + ", expected " + ename(m1); });
      chk(cf.exactly(h1), KEYE(s, "monad::bind<either>|calls"), [&] { return cf.str(); });
      if (s)
      {
        // left identity
        Calls c1, c2;
        ED const a = fcppt::either::bind(fcppt::either::make_success<E>(D(e - 3)), kleisli(f, c1));
        ED const b = fcppt::either::bind(fcppt::monad::return_<ED>(D(e - 3)), kleisli(f, c2));
        chk(code(a) == m1 && code(b) == m1, "either::bind|left-identity|success", [&] { return "bind(make_success(d), f) = " + ename(code(a)) + " / via monad::return_ " + ename(code(b)) + ", expected " + ename(m1); });
        chk(c1.exactly(h1) && c2.exactly(h1), "either::bind|left-identity-calls|success", [&] { return c1.str() + c2.str(); });
      }
    }
    if (g == 0 && f == 0)
    {
      ED src = mk(e);
      ED const r = fcppt::either::bind(pass<RV>(src), [](D x) { return fcppt::either::make_success<E>(std::move(x)); });
      chk(code(r) == e, KEYE(s, "either::bind|right-identity"), [&] { return "bind(" + ename(e) + ", make_success) = " + ename(code(r)); });
    }
  });
}
Reg const r_bind{
    C04_SEC("either_bind_laws"), Kind::exhaustive, "either::bind / monad::bind / monad::chain: the either holds a success and the first continuation table D->either<E,D> is not constant",
    [] {
      for (i64 e = 0; e < 6; ++e)
        for (i64 f = 0; f < 216; ++f)
          for (i64 g = 0; g < 216; ++g)
          {
            cur3(e, f, g);
            bind_case(e, f, g);
          }
    },
    [](Ints const &c) { bind_case(c.at(0), c.at(1), c.at(2)); },
    [](Ints const &c) { return "either bind laws: e=" + ename(static_cast<int>(mod(c.at(0), 6))) + " f=table#" + std::to_string(mod(c.at(1), 216)) + " g=table#" + std::to_string(mod(c.at(2), 216)) + " (D->either<E,D>, base-6 digits: 0..2 failure, 3..5 success)"; }};

// ------------------------------------------------------------------------------------------------
// map / map_failure: value, calls, functor laws
void map_case(i64 e_, i64 f_, i64 g_)
{
  int const e = static_cast<int>(mod(e_, 6));
  i64 const f = mod(f_, 27), g = mod(g_, 27);
  bool const s = e >= 3;
  count(!constant_table(f, 3, 3));
  both_categories([&](auto rv) {
    constexpr bool RV = decltype(rv)::value;
    {
      // map
      int const m1 = s ? 3 + dig(f, e - 3, 3) : e;
      int const m2 = s ? 3 + dig(g, m1 - 3, 3) : e;
      Calls cf, cg, cf2, cg2, cf3;
      ED src = mk(e), src2 = mk(e), src3 = mk(e);
      ED const r = fcppt::either::map(pass<RV>(src), table<D, D>(f, cf));
      if constexpr (!RV)
      {
        Calls c1, c2;
        ED lv = mk(e);
        ED const r1 = fcppt::either::map(lv, table<D, D>(f, c1));
        bool const unchanged = lv == mk(e);
        ED const r2 = fcppt::either::map(lv, table<D, D>(f, c2));
        chk(code(r1) == code(r) && unchanged && code(r2) == code(r), "either::map|non-const-lvalue-argument", [&] {
          return "map(lvalue " + ename(e) + ", f) = " + ename(code(r1)) + ", argument " + (unchanged ? "unchanged" : "CHANGED") + ", second call = " + ename(code(r2));
        });
      }
      chk(code(r) == m1, KEYE(s, "either::map|result"), [&] { return std::string(cat_name(RV)) + " map(" + ename(e) + ", f) = " + ename(code(r)) + ", expected " + ename(m1); });
      chk(cf.exactly(s ? e - 3 : -1), KEYE(s, "either::map|calls"), [&] { return std::string(cat_name(RV)) + " map(" + ename(e) + ", f): " + cf.str(); });
      ED const a = fcppt::either::map(fcppt::either::map(pass<RV>(src2), table<D, D>(f, cf2)), table<D, D>(g, cg));
      auto const ft = table<D, D>(f, cf3);
      auto const gt = table<D, D>(g, cg2);
      ED const b = fcppt::either::map(pass<RV>(src3), [&](D x) { return gt(ft(std::move(x))); });
      chk(code(a) == m2 && code(b) == m2, KEYE(s, "either::map|composition"), [&] { return "map(map(" + ename(e) + ",f),g) = " + ename(code(a)) + ", map(e, g.f) = " + ename(code(b)) + ", expected " + ename(m2); });
      chk(cf2.exactly(s ? e - 3 : -1) && cg.exactly(s ? m1 - 3 : -1) && cf3.exactly(s ? e - 3 : -1) && cg2.exactly(s ? m1 - 3 : -1), KEYE(s, "either::map|composition-calls"), [&] { return cf2.str() + cg.str() + cf3.str() + cg2.str(); });
    }
    {
      // map_failure
      int const m1 = s ? e : dig(f, e, 3);
      int const m2 = s ? e : dig(g, m1, 3);
      Calls cf, cg, cf2;
      ED src = mk(e), src2 = mk(e);
      ED const r = fcppt::either::map_failure(pass<RV>(src), table<E, E>(f, cf));
      chk(code(r) == m1, KEYE(s, "either::map_failure|result"), [&] { return std::string(cat_name(RV)) + " map_failure(" + ename(e) + ", f) = " + ename(code(r)) + ", expected " + ename(m1); });
      chk(cf.exactly(s ? -1 : e), KEYE(s, "either::map_failure|calls"), [&] { return std::string(cat_name(RV)) + " map_failure(" + ename(e) + ", f): " + cf.str(); });
      ED const a = fcppt::either::map_failure(fcppt::either::map_failure(pass<RV>(src2), table<E, E>(f, cf2)), table<E, E>(g, cg));
      chk(code(a) == m2, KEYE(s, "either::map_failure|composition"), [&] { return "map_failure(map_failure(" + ename(e) + ",f),g) = " + ename(code(a)) + ", expected " + ename(m2); });
      chk(cf2.exactly(s ? -1 : e) && cg.exactly(s ? -1 : m1), KEYE(s, "either::map_failure|composition-calls"), [&] { return cf2.str() + cg.str(); });
    }
    if (g == 0)
    {
      // type-changing: success D -> R, failure E -> Q
      Calls cf, cg;
      ED src = mk(e), src2 = mk(e);
      fcppt::either::object<E, R> const r = fcppt::either::map(pass<RV>(src), table<D, R>(f, cf));
      chk(code(r) == (s ? 3 + dig(f, e - 3, 3) : e) && cf.exactly(s ? e - 3 : -1), KEYE(s, "either::map|other-type"), [&] { return "map<D->R>(" + ename(e) + ") = code " + std::to_string(code(r)) + " " + cf.str(); });
      fcppt::either::object<Q, D> const q = fcppt::either::map_failure(pass<RV>(src2), table<E, Q>(f, cg));
      chk(code(q) == (s ? e : dig(f, e, 3)) && cg.exactly(s ? -1 : e), KEYE(s, "either::map_failure|other-type"), [&] { return "map_failure<E->Q>(" + ename(e) + ") = code " + std::to_string(code(q)) + " " + cg.str(); });
    }
    if (g == 0 && f == 0)
    {
      ED src = mk(e), src2 = mk(e);
      ED const r = fcppt::either::map(pass<RV>(src), [](D x) { return x; });
      ED const q = fcppt::either::map_failure(pass<RV>(src2), [](E x) { return x; });
      chk(code(r) == e, KEYE(s, "either::map|identity"), [&] { return "map(" + ename(e) + ", id) = " + ename(code(r)); });
      chk(code(q) == e, KEYE(s, "either::map_failure|identity"), [&] { return "map_failure(" + ename(e) + ", id) = " + ename(code(q)); });
    }
  });
}
Reg const r_map{
    C04_SEC("either_map_laws"), Kind::exhaustive, "either::map / map_failure: the first table (D->D resp. E->E) is not constant (each case exercises the held side with one of the two functions)",
    [] {
      for (i64 e = 0; e < 6; ++e)
        for (i64 f = 0; f < 27; ++f)
          for (i64 g = 0; g < 27; ++g)
          {
            cur3(e, f, g);
            map_case(e, f, g);
          }
    },
    [](Ints const &c) { map_case(c.at(0), c.at(1), c.at(2)); },
    [](Ints const &c) { return "either map laws: e=" + ename(static_cast<int>(mod(c.at(0), 6))) + " f=table#" + std::to_string(mod(c.at(1), 27)) + " g=table#" + std::to_string(mod(c.at(2), 27)); }};

// ------------------------------------------------------------------------------------------------
// join; match (branch selection, exactly once); success_opt / failure_opt
void match_case(i64 e_, i64 ff_, i64 sf_)
{
  int const e = static_cast<int>(mod(e_, 6));
  i64 const ff = mod(ff_, 27), sf = mod(sf_, 27);
  bool const s = e >= 3;
  int const want = s ? dig(sf, e - 3, 3) : dig(ff, e, 3);
  count(!constant_table(s ? sf : ff, 3, 3));
  both_categories([&](auto rv) {
    constexpr bool RV = decltype(rv)::value;
    Calls cf, cs;
    ED src = mk(e);
    R const r = fcppt::either::match(pass<RV>(src), table<E, R>(ff, cf), table<D, R>(sf, cs));
    chk(r.idx() == want, KEYE(s, "either::match|result"), [&] { return std::string(cat_name(RV)) + " match(" + ename(e) + ", ff, sf) = " + vname<R>(r.idx()) + ", expected r" + std::to_string(want); });
    chk(cf.exactly(s ? -1 : e) && cs.exactly(s ? e - 3 : -1), KEYE(s, "either::match|calls"), [&] { return std::string(cat_name(RV)) + " match(" + ename(e) + "): failure function " + cf.str() + ", success function " + cs.str(); });
    if (ff == 0 && sf == 0)
    {
      ED a = mk(e), b = mk(e);
      OD const so = fcppt::either::success_opt(pass<RV>(a));
      OE const fo = fcppt::either::failure_opt(pass<RV>(b));
      chk(ocode(so) == (s ? 1 + e - 3 : 0), KEYE(s, "either::success_opt|result"), [&] { return "success_opt(" + ename(e) + ") = " + std::to_string(ocode(so)); });
      chk(ocode(fo) == (s ? 0 : 1 + e), KEYE(s, "either::failure_opt|result"), [&] { return "failure_opt(" + ename(e) + ") = " + std::to_string(ocode(fo)); });
    }
  });
}
Reg const r_match{
    C04_SEC("either_match"), Kind::exhaustive, "either::match / success_opt / failure_opt: the continuation table of the held side is not constant",
    [] {
      for (i64 e = 0; e < 6; ++e)
        for (i64 ff = 0; ff < 27; ++ff)
          for (i64 sf = 0; sf < 27; ++sf)
          {
            cur3(e, ff, sf);
            match_case(e, ff, sf);
          }
    },
    [](Ints const &c) { match_case(c.at(0), c.at(1), c.at(2)); },
    [](Ints const &c) { return "match: e=" + ename(static_cast<int>(mod(c.at(0), 6))) + " failure function=table#" + std::to_string(mod(c.at(1), 27)) + " success function=table#" + std::to_string(mod(c.at(2), 27)); }};

struct Exc
{
  int v;
};
void misc_case(i64 op_, i64 a_, i64 b_, i64 c_)
{
  int const op = static_cast<int>(mod(op_, 7));
  switch (op)
  {
  case 0: // join
  {
    int const k = static_cast<int>(mod(a_, 9));
    int const want = k < 3 ? k : k - 3;
    count(k >= 3);
    both_categories([&](auto rv) {
      constexpr bool RV = decltype(rv)::value;
      EED src = mkee(k), src2 = mkee(k);
      ED const r = fcppt::either::join(pass<RV>(src));
      char const *const cl = k < 3 ? "either::join|result|outer-failure" : k < 6 ? "either::join|result|inner-failure" : "either::join|result|success";
      chk(code(r) == want, cl, [&] { return std::string(cat_name(RV)) + " join(#" + std::to_string(k) + ") = " + ename(code(r)) + ", expected " + ename(want) + " (0..2 outer failure, 3+e inner either e)"; });
      ED const b = fcppt::either::bind(pass<RV>(src2), [](ED x) { return x; });
      chk(code(b) == want, "either::join|equals-bind-identity", [&] { return "bind(#" + std::to_string(k) + ", id) = " + ename(code(b)); });
    });
    {
      // a NON-CONST lvalue argument: join is a pure function of its argument, which is the same
      // value afterwards (it must not be hollowed out by a move)
      EED src = mkee(k);
      ED const r = fcppt::either::join(src);
      chk(code(r) == want, "either::join|result|non-const-lvalue", [&] { return "lvalue join(#" + std::to_string(k) + ") = " + ename(code(r)); });
      chk(src == mkee(k), "either::join|non-const-lvalue-argument|modified", [&] { return "join(#" + std::to_string(k) + ") changed its non-const lvalue argument"; });
      ED const again = fcppt::either::join(src);
      chk(code(again) == want, "either::join|result|second-call-on-the-same-lvalue", [&] { return "second lvalue join(#" + std::to_string(k) + ") = " + ename(code(again)) + ", expected " + ename(want); });
    }
    break;
  }
  case 1: // from_optional(o, -> failure)
  {
    int const o = static_cast<int>(mod(a_, 4)), fv = static_cast<int>(mod(b_, 3));
    count(o != 0);
    both_categories([&](auto rv) {
      constexpr bool RV = decltype(rv)::value;
      Calls0 c;
      OD src = mko(o);
      ED const r = fcppt::either::from_optional(pass<RV>(src), [&c, fv] { ++c.n; return E(fv); });
      chk(code(r) == (o == 0 ? fv : 3 + o - 1), o ? "either::from_optional|result|present" : "either::from_optional|result|absent", [&] { return "from_optional(" + oname(o) + ", -> e" + std::to_string(fv) + ") = " + ename(code(r)); });
      chk(c.n == (o == 0 ? 1 : 0), o ? "either::from_optional|failure-calls|present" : "either::from_optional|failure-calls|absent", [&] { return "failure function called " + std::to_string(c.n) + " times"; });
    });
    break;
  }
  case 2: // construct(bool, success, failure)
  {
    bool const flag = mod(a_, 2) != 0;
    int const sv = static_cast<int>(mod(b_, 3)), fv = static_cast<int>(mod(c_, 3));
    count(true);
    Calls0 cs, cf;
    ED const r = fcppt::either::construct(flag, [&cs, sv] { ++cs.n; return D(sv); }, [&cf, fv] { ++cf.n; return E(fv); });
    chk(code(r) == (flag ? 3 + sv : fv), flag ? "either::construct|result|true" : "either::construct|result|false", [&] { return "construct(" + std::to_string(flag) + ") = " + ename(code(r)); });
    chk(cs.n == (flag ? 1 : 0) && cf.n == (flag ? 0 : 1), flag ? "either::construct|calls|true" : "either::construct|calls|false", [&] { return "success function called " + std::to_string(cs.n) + ", failure function " + std::to_string(cf.n) + " times"; });
    break;
  }
  case 3: // to_exception
  {
    int const e = static_cast<int>(mod(a_, 6));
    i64 const t = mod(b_, 27);
    bool const s = e >= 3;
    count(!s && !constant_table(t, 3, 3));
    both_categories([&](auto rv) {
      constexpr bool RV = decltype(rv)::value;
      Calls c;
      ED src = mk(e);
      int got = -2;
      try
      {
        D const r = fcppt::either::to_exception(pass<RV>(src), [&c, t](E x) { c.hit(x.idx()); return Exc{x.idx() < 0 ? -1 : dig(t, x.idx(), 3)}; });
        got = r.idx();
      }
      catch (Exc const &x)
      {
        got = 100 + x.v;
      }
      int const want = s ? e - 3 : 100 + dig(t, e, 3);
      chk(got == want, KEYE(s, "either::to_exception|result"), [&] { return "to_exception(" + ename(e) + ") gave " + std::to_string(got) + ", expected " + std::to_string(want) + " (100+k: exception k thrown)"; });
      chk(c.exactly(s ? -1 : e), KEYE(s, "either::to_exception|calls"), [&] { return c.str(); });
    });
    break;
  }
  case 4: // error_from_optional, make_success, make_failure
  {
    int const o = static_cast<int>(mod(a_, 4));
    count(o != 0);
    both_categories([&](auto rv) {
      constexpr bool RV = decltype(rv)::value;
      OE src = o == 0 ? OE{} : OE{E(o - 1)};
      fcppt::either::error<E> const r = fcppt::either::error_from_optional(pass<RV>(src));
      bool const ok = o == 0 ? r.has_success() && !r.has_failure() : (r.has_failure() && !r.has_success() && r.get_failure_unsafe().idx() == o - 1);
      chk(ok, o ? "either::error_from_optional|result|present" : "either::error_from_optional|result|absent", [&] { return "error_from_optional(optional<E> #" + std::to_string(o) + ") wrong"; });
    });
    if (o != 0)
    {
      D const dv(o - 1);
      E const ev(o - 1);
      ED const a = fcppt::either::make_success<E>(dv), b = fcppt::either::make_success<E>(D(o - 1));
      ED const c = fcppt::either::make_failure<D>(ev), d = fcppt::either::make_failure<D>(E(o - 1));
      chk(code(a) == 3 + o - 1 && code(b) == 3 + o - 1, "either::make_success|result", [&] { return ename(code(a)) + " / " + ename(code(b)); });
      chk(code(c) == o - 1 && code(d) == o - 1, "either::make_failure|result", [&] { return ename(code(c)) + " / " + ename(code(d)); });
    }
    break;
  }
  case 5: // comparison
  {
    int const a = static_cast<int>(mod(a_, 6)), b = static_cast<int>(mod(b_, 6));
    count(true);
    ED const x = mk(a), y = mk(b);
    chk((x == y) == (a == b), "either::operator==|value", [&] { return ename(a) + " == " + ename(b) + " gave " + std::to_string(x == y); });
    chk((x != y) == (a != b), "either::operator!=|value", [&] { return ename(a) + " != " + ename(b) + " gave " + std::to_string(x != y); });
    break;
  }
  default: // object: constructors, observers, copy / move / assignment across alternatives
  {
    int const a = static_cast<int>(mod(a_, 6)), b = static_cast<int>(mod(b_, 6));
    count((a >= 3) != (b >= 3));
    ED x = mk(a);
    chk(x.has_success() == (a >= 3) && x.has_failure() == (a < 3), "either::object|has_success-has_failure", [&] { return "observers of " + ename(a) + " wrong"; });
    if (a >= 3)
      chk(x.get_success_unsafe().idx() == a - 3 && std::as_const(x).get_success_unsafe().idx() == a - 3, "either::object|get_success_unsafe", [&] { return std::string("wrong success value"); });
    else
      chk(x.get_failure_unsafe().idx() == a && std::as_const(x).get_failure_unsafe().idx() == a, "either::object|get_failure_unsafe", [&] { return std::string("wrong failure value"); });
    // the four constructors
    {
      D const dl(a % 3);
      E const el(a % 3);
      ED const c1{dl}, c2{D(a % 3)}, c3{el}, c4{E(a % 3)};
      chk(code(c1) == 3 + a % 3 && code(c2) == 3 + a % 3 && code(c3) == a % 3 && code(c4) == a % 3 && dl.idx() == a % 3 && el.idx() == a % 3, "either::object|constructors", [&] { return ename(code(c1)) + ename(code(c2)) + ename(code(c3)) + ename(code(c4)); });
    }
    ED const cp(x);
    chk(code(cp) == a && code(x) == a, "either::object|copy-construct", [&] { return "copy of " + ename(a) + " = " + ename(code(cp)); });
    ED mv(std::move(x));
    chk(code(mv) == a, "either::object|move-construct", [&] { return "move of " + ename(a) + " = " + ename(code(mv)); });
    ED y = mk(b);
    mv = y;
    chk(code(mv) == b && code(y) == b, "either::object|copy-assign", [&] { return ename(a) + " = " + ename(b) + " gave " + ename(code(mv)); });
    ED z = mk(a);
    z = std::move(y);
    chk(code(z) == b, "either::object|move-assign", [&] { return ename(a) + " = move(" + ename(b) + ") gave " + ename(code(z)); });
    if (b >= 3)
    {
      z.get_success_unsafe() = D((b - 3 + 1) % 3);
      chk(code(z) == 3 + (b - 3 + 1) % 3, "either::object|get_success_unsafe-mutation", [&] { return ename(code(z)); });
    }
    else
    {
      z.get_failure_unsafe() = E((b + 1) % 3);
      chk(code(z) == (b + 1) % 3, "either::object|get_failure_unsafe-mutation", [&] { return ename(code(z)); });
    }
    break;
  }
  }
}
Reg const r_misc{
    C04_SEC("either_join_convert_object"), Kind::exhaustive,
    "join / from_optional / construct / to_exception / error_from_optional / make_* / comparison / object: the interesting alternative is held (join: outer success; from_optional: value present; to_exception: failure and non-constant table; object: assignment across alternatives)",
    [] {
      i64 const na[] = {9, 4, 2, 6, 4, 6, 6}, nb[] = {1, 3, 3, 27, 1, 6, 6}, nc[] = {1, 1, 3, 1, 1, 1, 1};
      for (i64 op = 0; op < 7; ++op)
        for (i64 a = 0; a < na[op]; ++a)
          for (i64 b = 0; b < nb[op]; ++b)
            for (i64 c = 0; c < nc[op]; ++c)
            {
              cur4(op, a, b, c);
              misc_case(op, a, b, c);
            }
    },
    [](Ints const &c) { misc_case(c.at(0), c.at(1), c.at(2), c.at(3)); },
    [](Ints const &c) {
      static char const *const names[] = {"join(nested#a)", "from_optional(o#a, ->e#b)", "construct(a, ->d#b, ->e#c)", "to_exception(e#a, table#b)", "error_from_optional(o#a)/make_*", "compare(e#a, e#b)", "object ops(e#a, e#b)"};
      return std::string(names[mod(c.at(0), 7)]) + " a=" + std::to_string(c.at(1)) + " b=" + std::to_string(c.at(2)) + " c=" + std::to_string(c.at(3));
    }};

// ------------------------------------------------------------------------------------------------
// apply with two eithers and ALL binary tables; three eithers of different success types
void apply2_case(i64 a_, i64 b_, i64 t_)
{
  int const a = static_cast<int>(mod(a_, 6)), b = static_cast<int>(mod(b_, 6));
  i64 const t = mod(t_, 19683);
  bool const all = a >= 3 && b >= 3;
  int const want = a < 3 ? a : b < 3 ? b : 3 + dig(t, (a - 3) * 3 + (b - 3), 3);
  count(all ? !constant_table(t, 9, 3) : (a < 3 && b < 3 && a != b && t < 27));
  char const *const cl = all ? "either::apply|result|all-success" : (a < 3 && b < 3) ? "either::apply|result|two-failures" : "either::apply|result|one-failure";
  both_categories([&](auto rv) {
    constexpr bool RV = decltype(rv)::value;
    Calls2 c;
    ED x = mk(a), y = mk(b);
    ED const r = fcppt::either::apply(table2(t, c), pass<RV>(x), pass<RV>(y));
    chk(code(r) == want, cl, [&] { return std::string(cat_name(RV)) + " apply(f," + ename(a) + "," + ename(b) + ") = " + ename(code(r)) + ", expected " + ename(want); });
    chk(c.exactly(all ? a - 3 : -1, b - 3), all ? "either::apply|calls|all-success" : "either::apply|calls|some-failure", [&] { return "apply(f," + ename(a) + "," + ename(b) + "): " + c.str(); });
  });
}
Reg const r_apply2{
    C04_SEC("either_apply_binary"), Kind::exhaustive, "either::apply with two eithers: both successes and a non-constant binary table, or two different failures (first must win)",
    [] {
      for (i64 a = 0; a < 6; ++a)
        for (i64 b = 0; b < 6; ++b)
          for (i64 t = 0; t < 19683; ++t)
          {
            // with a failure present the function must not be called at all: 27 tables suffice there
            if ((a < 3 || b < 3) && t >= 27) break;
            cur3(a, b, t);
            apply2_case(a, b, t);
          }
    },
    [](Ints const &c) { apply2_case(c.at(0), c.at(1), c.at(2)); },
    [](Ints const &c) { return "either apply: e1=" + ename(static_cast<int>(mod(c.at(0), 6))) + " e2=" + ename(static_cast<int>(mod(c.at(1), 6))) + " f=binary table#" + std::to_string(mod(c.at(2), 19683)); }};

struct Tri
{
  int a, b, c;
};
void apply3_case(i64 a_, i64 b_, i64 c_)
{
  int const a = static_cast<int>(mod(a_, 6)), b = static_cast<int>(mod(b_, 6)), c = static_cast<int>(mod(c_, 6));
  bool const all = a >= 3 && b >= 3 && c >= 3;
  int const first_failure = a < 3 ? a : b < 3 ? b : c < 3 ? c : -1;
  int const nfail = (a < 3) + (b < 3) + (c < 3);
  count(all || nfail >= 2);
  int calls = 0;
  bool args_ok = true;
  auto const f3 = [&](D x, R y, Q z) {
    ++calls;
    args_ok = args_ok && x.idx() == a - 3 && y.idx() == b - 3 && z.idx() == c - 3;
    return Tri{x.idx(), y.idx(), z.idx()};
  };
  auto check = [&](fcppt::either::object<E, Tri> const &r, char const *flavour) {
    bool const ok = all ? (r.has_success() && r.get_success_unsafe().a == a - 3 && r.get_success_unsafe().b == b - 3 && r.get_success_unsafe().c == c - 3)
                        : (r.has_failure() && r.get_failure_unsafe().idx() == first_failure);
    chk(ok, all ? "either::apply|result-3-arguments|all-success" : nfail >= 2 ? "either::apply|result-3-arguments|several-failures" : "either::apply|result-3-arguments|one-failure",
        [&] { return std::string(flavour) + " apply(f," + ename(a) + "," + ename(b) + "," + ename(c) + ") = " + (r.has_failure() ? "failure " + vname<E>(r.get_failure_unsafe().idx()) : std::string("success")) + ", expected " + (all ? std::string("success") : "failure e" + std::to_string(first_failure)); });
    chk(calls == (all ? 1 : 0) && args_ok, all ? "either::apply|calls-3-arguments|all-success" : "either::apply|calls-3-arguments|some-failure", [&] { return std::string(flavour) + ": " + std::to_string(calls) + " calls, arguments " + (args_ok ? "right" : "wrong"); });
    calls = 0;
    args_ok = true;
  };
  {
    ED const x = mk(a);
    auto const y = mks<R>(b);
    auto const z = mks<Q>(c);
    check(fcppt::either::apply(f3, x, y, z), "const lvalues");
  }
  check(fcppt::either::apply(f3, mk(a), mks<R>(b), mks<Q>(c)), "rvalues");
  {
    auto const y = mks<R>(b);
    check(fcppt::either::apply(f3, mk(a), y, mks<Q>(c)), "mixed");
  }
  if (b == 0 && c == 0)
  {
    Calls cf;
    ED const r = fcppt::either::apply(table<D, D>(5, cf), mk(a));
    chk(code(r) == (a >= 3 ? 3 + dig(5, a - 3, 3) : a) && cf.exactly(a >= 3 ? a - 3 : -1), KEYE(a >= 3, "either::apply|unary"), [&] { return "apply(f," + ename(a) + ") = " + ename(code(r)) + " " + cf.str(); });
  }
}
Reg const r_apply3{
    C04_SEC("either_apply_ternary"), Kind::exhaustive, "either::apply with three eithers of different success types: all successes, or at least two failures (the first in argument order must be returned)",
    [] {
      for (i64 a = 0; a < 6; ++a)
        for (i64 b = 0; b < 6; ++b)
          for (i64 c = 0; c < 6; ++c)
          {
            cur3(a, b, c);
            apply3_case(a, b, c);
          }
    },
    [](Ints const &c) { apply3_case(c.at(0), c.at(1), c.at(2)); },
    [](Ints const &c) { return "either apply3: (" + ename(static_cast<int>(mod(c.at(0), 6))) + "," + ename(static_cast<int>(mod(c.at(1), 6))) + "," + ename(static_cast<int>(mod(c.at(2), 6))) + ") with success types D,R,Q"; }};

// ------------------------------------------------------------------------------------------------
// sequence over all containers of eithers up to length 4
template <typename Src>
Src make_src(int len, i64 cd)
{
  Src s;
  for (int i = 0; i < len; ++i) s.insert(s.end(), mk(dig(cd, i, 6)));
  return s;
}
template <typename C>
bool same_seq(C const &c, std::vector<int> const &want)
{
  if (c.size() != want.size()) return false;
  std::size_t i = 0;
  for (auto const &x : c)
    if (x.idx() != want[i++]) return false;
  return true;
}
template <typename Src, typename Res, bool RV>
void seq_check(int len, i64 cd, int first_failure, std::vector<int> const &succ, int nfail, char const *names)
{
  Src src = make_src<Src>(len, cd);
  fcppt::either::object<E, Res> const r = fcppt::either::sequence<Res>(pass<RV>(src));
  bool const ok = first_failure < 0 ? (r.has_success() && !r.has_failure() && same_seq(r.get_success_unsafe(), succ)) : (r.has_failure() && !r.has_success() && r.get_failure_unsafe().idx() == first_failure);
  chk(ok, first_failure < 0 ? "either::sequence|result|all-success" : nfail >= 2 ? "either::sequence|result|several-failures" : "either::sequence|result|one-failure",
      [&] { return std::string(names) + " " + cat_name(RV) + ": sequence = " + (r.has_failure() ? "failure " + vname<E>(r.get_failure_unsafe().idx()) : "success with " + std::to_string(r.get_success_unsafe().size()) + " elements") + ", expected " + (first_failure < 0 ? std::string("all successes in order") : "failure e" + std::to_string(first_failure)); });
}
void seq_case(i64 len_, i64 code_)
{
  int const len = static_cast<int>(mod(len_, 5));
  i64 const cd = mod(code_, ipow(6, len));
  int first_failure = -1, nfail = 0;
  std::vector<int> succ;
  for (int i = 0; i < len; ++i)
  {
    int const e = dig(cd, i, 6);
    if (e < 3)
    {
      if (first_failure < 0) first_failure = e;
      ++nfail;
    }
    else
      succ.push_back(e - 3);
  }
  count(len >= 2 && (nfail == 0 || nfail >= 2 || !succ.empty()));
  // either::sequence only accepts rvalue sources: its requires-clause applies value_type to
  // remove_const_t<Source>, which is a reference type for an lvalue argument (does not compile)
  seq_check<std::vector<ED>, std::vector<D>, true>(len, cd, first_failure, succ, nfail, "vector->vector");
  seq_check<std::list<ED>, std::vector<D>, true>(len, cd, first_failure, succ, nfail, "list->vector");
  seq_check<std::list<ED>, std::list<D>, true>(len, cd, first_failure, succ, nfail, "list->list");
  seq_check<std::deque<ED>, std::deque<D>, true>(len, cd, first_failure, succ, nfail, "deque->deque");
}
Reg const r_seq{
    C04_SEC("either_sequence"), Kind::exhaustive, "either::sequence: container of length >= 2 that is all successes, has several failures, or mixes successes and a failure",
    [] {
      for (i64 len = 0; len <= 4; ++len)
        for (i64 cd = 0; cd < ipow(6, static_cast<int>(len)); ++cd)
        {
          cur2(len, cd);
          seq_case(len, cd);
        }
    },
    [](Ints const &c) { seq_case(c.at(0), c.at(1)); },
    [](Ints const &c) {
      int const len = static_cast<int>(mod(c.at(0), 5));
      std::string r = "sequence of [";
      for (int i = 0; i < len; ++i) r += ename(dig(mod(c.at(1), ipow(6, len)), i, 6)) + " ";
      return r + "]";
    }};

// sequence_error: all sequences over D up to length 4, all tables D -> either<E,no_error>
void seq_error_case(i64 len_, i64 sq_, i64 t_)
{
  int const len = static_cast<int>(mod(len_, 5));
  i64 const sq = mod(sq_, ipow(3, len)), t = mod(t_, 64);
  using err = fcppt::either::error<E>;
  // model: call f on x_1.. in order until the first failure
  std::vector<int> want_log;
  int want = -1;
  for (int i = 0; i < len && want < 0; ++i)
  {
    int const x = dig(sq, i, 3);
    want_log.push_back(x);
    int const v = dig(t, x, 4);
    if (v != 0) want = v - 1;
  }
  count(len >= 2 && !constant_table(t, 3, 4));
  both_categories([&](auto rv) {
    constexpr bool RV = decltype(rv)::value;
    std::vector<D> src;
    for (int i = 0; i < len; ++i) src.push_back(D(dig(sq, i, 3)));
    std::vector<int> log;
    err const r = fcppt::either::sequence_error(pass<RV>(src), [&log, t](D x) -> err {
      log.push_back(x.idx());
      int const v = x.idx() < 0 ? 1 : dig(t, x.idx(), 4);
      return v == 0 ? err{fcppt::either::no_error{}} : err{E(v - 1)};
    });
    bool const ok = want < 0 ? r.has_success() : (r.has_failure() && r.get_failure_unsafe().idx() == want);
    chk(ok, want < 0 ? "either::sequence_error|result|no-failure" : "either::sequence_error|result|failure", [&] { return std::string(cat_name(RV)) + " sequence_error gave " + (r.has_failure() ? "failure " + vname<E>(r.get_failure_unsafe().idx()) : std::string("success")) + ", expected " + (want < 0 ? std::string("success") : "failure e" + std::to_string(want)); });
    chk(log == want_log, want < 0 ? "either::sequence_error|calls|no-failure" : "either::sequence_error|calls|failure", [&] { return "function called " + std::to_string(log.size()) + " times, expected " + std::to_string(want_log.size()) + " calls in element order, stopping at the first failure"; });
  });
}
Reg const r_seq_error{
    C04_SEC("either_sequence_error"), Kind::exhaustive, "either::sequence_error: at least 2 elements and a non-constant table D->either<E,no_error>",
    [] {
      for (i64 len = 0; len <= 4; ++len)
        for (i64 sq = 0; sq < ipow(3, static_cast<int>(len)); ++sq)
          for (i64 t = 0; t < 64; ++t)
          {
            cur3(len, sq, t);
            seq_error_case(len, sq, t);
          }
    },
    [](Ints const &c) { seq_error_case(c.at(0), c.at(1), c.at(2)); },
    [](Ints const &c) { return "sequence_error: length " + std::to_string(mod(c.at(0), 5)) + " sequence#" + std::to_string(c.at(1)) + " (base-3 digits) table#" + std::to_string(mod(c.at(2), 64)) + " (base-4 digits, 0 = no error)"; }};

// ------------------------------------------------------------------------------------------------
// first_success: all containers of functions up to length 4 (each returns one of the 6 eithers)
template <typename Fns>
void first_success_check(int len, i64 cd, char const *name)
{
  std::vector<int> log;
  Fns fns;
  for (int i = 0; i < len; ++i)
  {
    int const e = dig(cd, i, 6);
    fns.insert(fns.end(), typename Fns::value_type{[&log, i, e]() -> ED {
                 log.push_back(i);
                 return mk(e);
               }});
  }
  std::vector<int> want_log, want_fail;
  int want_succ = -1;
  for (int i = 0; i < len && want_succ < 0; ++i)
  {
    int const e = dig(cd, i, 6);
    want_log.push_back(i);
    if (e >= 3)
      want_succ = e - 3;
    else
      want_fail.push_back(e);
  }
  fcppt::either::object<std::vector<E>, D> const r = fcppt::either::first_success(std::as_const(fns));
  bool const ok = want_succ >= 0 ? (r.has_success() && r.get_success_unsafe().idx() == want_succ) : (r.has_failure() && same_seq(r.get_failure_unsafe(), want_fail));
  chk(ok, want_succ >= 0 ? "either::first_success|result|has-success" : "either::first_success|result|all-failures",
      [&] { return std::string(name) + ": first_success = " + (r.has_success() ? "success " + vname<D>(r.get_success_unsafe().idx()) : std::to_string(r.get_failure_unsafe().size()) + " failures") + ", expected " + (want_succ >= 0 ? "success d" + std::to_string(want_succ) : std::to_string(want_fail.size()) + " failures in order"); });
  chk(log == want_log, want_succ >= 0 ? "either::first_success|calls|has-success" : "either::first_success|calls|all-failures",
      [&] { return std::string(name) + ": " + std::to_string(log.size()) + " functions called, expected the first " + std::to_string(want_log.size()) + " in order, each once"; });
}
void first_success_case(i64 len_, i64 code_)
{
  int const len = static_cast<int>(mod(len_, 5));
  i64 const cd = mod(code_, ipow(6, len));
  bool any_succ = false;
  for (int i = 0; i < len; ++i) any_succ = any_succ || dig(cd, i, 6) >= 3;
  count(len >= 2);
  first_success_check<std::vector<fcppt::function<ED()>>>(len, cd, "vector<fcppt::function>");
  first_success_check<std::list<std::function<ED()>>>(len, cd, "list<std::function>");
}
Reg const r_first_success{
    C04_SEC("either_first_success"), Kind::exhaustive, "either::first_success: at least two functions",
    [] {
      for (i64 len = 0; len <= 4; ++len)
        for (i64 cd = 0; cd < ipow(6, static_cast<int>(len)); ++cd)
        {
          cur2(len, cd);
          first_success_case(len, cd);
        }
    },
    [](Ints const &c) { first_success_case(c.at(0), c.at(1)); },
    [](Ints const &c) {
      int const len = static_cast<int>(mod(c.at(0), 5));
      std::string r = "first_success of functions returning [";
      for (int i = 0; i < len; ++i) r += ename(dig(mod(c.at(1), ipow(6, len)), i, 6)) + " ";
      return r + "]";
    }};

// ------------------------------------------------------------------------------------------------
// loop: next() yields k <= 5 successes and then a failure
// Reading: the documentation does not fix the interleaving of _next and _loop calls; demanded are
// the number of _next calls (k+1: none after the first failure), the successes handed to _loop in
// order, each once, and the returned failure.
void loop_case(i64 k_, i64 sq_, i64 fe_)
{
  int const k = static_cast<int>(mod(k_, 6)), fe = static_cast<int>(mod(fe_, 3));
  i64 const sq = mod(sq_, ipow(3, k));
  count(k >= 1);
  int pos = 0, overrun = 0;
  std::vector<int> fed;
  E const r = fcppt::either::loop(
      [&]() -> ED {
        if (pos < k) return ED{D(dig(sq, pos++, 3))};
        if (pos++ > k) ++overrun;
        return ED{E(fe)};
      },
      [&fed](D x) { fed.push_back(x.idx()); });
  std::vector<int> want;
  for (int i = 0; i < k; ++i) want.push_back(dig(sq, i, 3));
  chk(r.idx() == fe, "either::loop|result", [&] { return "loop returned " + vname<E>(r.idx()) + ", expected e" + std::to_string(fe); });
  chk(pos == k + 1 && overrun == 0, "either::loop|next-calls", [&] { return "next called " + std::to_string(pos) + " times, expected " + std::to_string(k + 1); });
  chk(fed == want, k ? "either::loop|loop-calls|successes" : "either::loop|loop-calls|immediate-failure", [&] { return "loop body received " + std::to_string(fed.size()) + " values, expected the " + std::to_string(k) + " successes in order"; });
}
Reg const r_loop{
    C04_SEC("either_loop"), Kind::exhaustive, "either::loop: next() yields at least one success before the failure",
    [] {
      for (i64 k = 0; k <= 5; ++k)
        for (i64 sq = 0; sq < ipow(3, static_cast<int>(k)); ++sq)
          for (i64 fe = 0; fe < 3; ++fe)
          {
            cur3(k, sq, fe);
            loop_case(k, sq, fe);
          }
    },
    [](Ints const &c) { loop_case(c.at(0), c.at(1), c.at(2)); },
    [](Ints const &c) { return "loop: " + std::to_string(mod(c.at(0), 6)) + " successes (sequence#" + std::to_string(c.at(1)) + " base 3) then failure e" + std::to_string(mod(c.at(2), 3)); }};

// a long run: the number of successes is not bounded by anything but the caller's patience (a parser
// repetition over a long input is such a loop), so 10^6 successes followed by the failure return
// normally with every success handed to the body
void loop_long_case(i64 n_)
{
  static long const sizes[] = {1000, 100000, 1000000};
  long const n = sizes[mod(n_, 3)];
  count(true);
  long pos = 0, fed = 0, sum = 0;
  E const r = fcppt::either::loop(
      [&]() -> ED {
        if (pos < n) return ED{D(static_cast<int>(pos++ % 3))};
        ++pos;
        return ED{E(1)};
      },
      [&](D x) { ++fed; sum += x.idx(); });
  chk(r.idx() == 1 && pos == n + 1 && fed == n, "either::loop|long-run", [&] { return "loop over " + std::to_string(n) + " successes: next called " + std::to_string(pos) + " times, body " + std::to_string(fed) + " times, result " + vname<E>(r.idx()); });
}
Reg const r_loop_long{
    C04_SEC("either_loop_long"), Kind::exhaustive, "every case (10^3, 10^5, 10^6 successes before the failure)",
    [] { for (i64 n = 0; n < 3; ++n) { cur1(n); loop_long_case(n); } },
    [](Ints const &c) { loop_long_case(c.at(0)); },
    [](Ints const &c) { static char const *const t[] = {"10^3", "10^5", "10^6"}; return std::string("either::loop over ") + t[mod(c.at(0), 3)] + " successes, then a failure"; }};

// ------------------------------------------------------------------------------------------------
// try_call<ExcA>: return / throw ExcA / throw a class derived from ExcA / throw an unrelated ExcB
struct ExcA
{
  explicit ExcA(int x) : v(x) {}
  ExcA(ExcA const &) = default;
  virtual ~ExcA() = default;
  virtual int dynamic_tag() const { return 0; }
  int v;
};
struct ExcA2 : ExcA
{
  explicit ExcA2(int x) : ExcA(x) {}
  int dynamic_tag() const override { return 1; }
};
struct ExcB
{
  int v;
};
void try_call_case(i64 what_, i64 p_, i64 t_)
{
  int const what = static_cast<int>(mod(what_, 4)), p = static_cast<int>(mod(p_, 3));
  i64 const t = mod(t_, 27);
  count(what != 0 && !constant_table(t, 3, 3));
  int fcalls = 0;
  Calls conv;
  int got = -2;
  int seen_tag = -1;
  try
  {
    ED const r = fcppt::either::try_call<ExcA>(
        [&]() -> D {
          ++fcalls;
          switch (what)
          {
          case 1: throw ExcA{p};
          case 2: throw ExcA2{p};
          case 3: throw ExcB{p};
          default: return D(p);
          }
        },
        [&conv, &seen_tag, t](ExcA const &x) { conv.hit(x.v); seen_tag = x.dynamic_tag(); return E(dig(t, x.v, 3)); });
    got = code(r);
  }
  catch (ExcB const &x)
  {
    got = 100 + x.v;
  }
  int const want = what == 0 ? 3 + p : what == 3 ? 100 + p : dig(t, p, 3);
  static char const *const cls[] = {"returns", "throws-named-exception", "throws-derived-exception", "throws-other-exception"};
  static std::string const kr[] = {std::string("either::try_call|result|") + cls[0], std::string("either::try_call|result|") + cls[1], std::string("either::try_call|result|") + cls[2], std::string("either::try_call|result|") + cls[3]};
  static std::string const kc[] = {std::string("either::try_call|calls|") + cls[0], std::string("either::try_call|calls|") + cls[1], std::string("either::try_call|calls|") + cls[2], std::string("either::try_call|calls|") + cls[3]};
  chk(got == want, kr[what].c_str(), [&] { return "try_call gave " + std::to_string(got) + ", expected " + std::to_string(want) + " (0..2 failure, 3..5 success, 100+k: ExcB k escaped)"; });
  // the converter is handed the caught exception object itself (not a sliced copy of its base)
  if (what == 1 || what == 2)
    chk(seen_tag == (what == 2 ? 1 : 0), "either::try_call|converter-argument|dynamic-type-of-the-thrown-object", [&] { return std::string("the exception converter saw an object of dynamic type ") + (seen_tag == 1 ? "derived" : seen_tag == 0 ? "base" : "?") + ", thrown was " + (what == 2 ? "derived" : "base"); });
  chk(fcalls == 1 && conv.exactly((what == 1 || what == 2) ? p : -1), kc[what].c_str(), [&] { return "function called " + std::to_string(fcalls) + " times, exception converter " + conv.str(); });
}
Reg const r_try_call{
    C04_SEC("either_try_call"), Kind::exhaustive, "either::try_call: the function throws and the exception converter table is not constant",
    [] {
      for (i64 w = 0; w < 4; ++w)
        for (i64 p = 0; p < 3; ++p)
          for (i64 t = 0; t < 27; ++t)
          {
            cur3(w, p, t);
            try_call_case(w, p, t);
          }
    },
    [](Ints const &c) { try_call_case(c.at(0), c.at(1), c.at(2)); },
    [](Ints const &c) {
      static char const *const names[] = {"returns d", "throws ExcA", "throws ExcA2 (derived from ExcA)", "throws ExcB"};
      return std::string("try_call<ExcA>: function ") + names[mod(c.at(0), 4)] + " with payload " + std::to_string(mod(c.at(1), 3)) + ", converter table#" + std::to_string(mod(c.at(2), 27));
    }};
}
