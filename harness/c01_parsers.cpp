// VERIF: lib rc quick_shards=4 fuzz=json_grammar_inputs,options_random_vectors
// C01 (options / parse part of the registry) - safe API is total: options::impl::is_flag / next_arg,
// options::parse / parse_help on arbitrary argument vectors, parse::phrase_parse_string / parse_stream
// on arbitrary input for a JSON grammar. Oracle: sanitizers, catch(...) with a whitelist, watchdog,
// well-formed either results (both branches are read / printed).
#include "verif.hpp"

#include <fcppt/args_vector.hpp>
#include <fcppt/make_cref.hpp>
#include <fcppt/nonmovable.hpp>
#include <fcppt/not.hpp>
#include <fcppt/recursive.hpp>
#include <fcppt/string.hpp>
#include <fcppt/string_view.hpp>
#include <fcppt/text.hpp>
#include <fcppt/algorithm/fold.hpp>
#include <fcppt/container/insert.hpp>
#include <fcppt/container/make_move_range.hpp>
#include <fcppt/either/match.hpp>
#include <fcppt/either/object.hpp>
#include <fcppt/either/try_call.hpp>
#include <fcppt/optional/make.hpp>
#include <fcppt/optional/object.hpp>
#include <fcppt/optional/output.hpp>
#include <fcppt/options/apply.hpp>
#include <fcppt/options/argument.hpp>
#include <fcppt/options/default_help_switch.hpp>
#include <fcppt/options/error.hpp>
#include <fcppt/options/error_output.hpp>
#include <fcppt/options/flag.hpp>
#include <fcppt/options/help_text.hpp>
#include <fcppt/options/long_name.hpp>
#include <fcppt/options/make_many.hpp>
#include <fcppt/options/make_optional.hpp>
#include <fcppt/options/option.hpp>
#include <fcppt/options/option_name.hpp>
#include <fcppt/options/option_name_set.hpp>
#include <fcppt/options/optional_help_text.hpp>
#include <fcppt/options/optional_short_name.hpp>
#include <fcppt/options/parse.hpp>
#include <fcppt/options/parse_help.hpp>
#include <fcppt/options/result.hpp>
#include <fcppt/options/result_of.hpp>
#include <fcppt/options/short_name.hpp>
#include <fcppt/options/switch.hpp>
#include <fcppt/options/impl/is_flag.hpp>
#include <fcppt/options/impl/next_arg.hpp>
#include <fcppt/parse/base_unique_ptr.hpp>
#include <fcppt/parse/char_set.hpp>
#include <fcppt/parse/construct.hpp>
#include <fcppt/parse/convert_const.hpp>
#include <fcppt/parse/deref.hpp>
#include <fcppt/parse/error.hpp>
#include <fcppt/parse/int.hpp>
#include <fcppt/parse/literal.hpp>
#include <fcppt/parse/make_base.hpp>
#include <fcppt/parse/make_convert_if.hpp>
#include <fcppt/parse/make_lexeme.hpp>
#include <fcppt/parse/make_recursive.hpp>
#include <fcppt/parse/parse_stream.hpp>
#include <fcppt/parse/parse_string.hpp>
#include <fcppt/parse/phrase_parse_stream.hpp>
#include <fcppt/parse/phrase_parse_string.hpp>
#include <fcppt/parse/separator.hpp>
#include <fcppt/parse/string.hpp>
#include <fcppt/parse/operators/alternative.hpp>
#include <fcppt/parse/operators/complement.hpp>
#include <fcppt/parse/operators/repetition.hpp>
#include <fcppt/parse/operators/sequence.hpp>
#include <fcppt/parse/skipper/space.hpp>
#include <fcppt/record/get.hpp>
#include <fcppt/record/make_label.hpp>
#include <fcppt/record/output.hpp>
#include <fcppt/tuple/get.hpp>
#include <fcppt/tuple/object.hpp>
#include <fcppt/variant/match.hpp>
#include <fcppt/variant/object.hpp>

#include <memory>
#include <sstream>
#include <stdexcept>
#include <string>
#include <typeinfo>
#include <unordered_map>
#include <vector>

using namespace verif;

namespace
{
volatile long long g_sink = 0;
void touch(std::string const &s) { long long t = 0; for (char c : s) t += c; g_sink = g_sink + t + static_cast<long long>(s.size()); }

template <typename... Allowed, typename F>
void total(char const *site, F &&f)
{
  try
  {
    f();
  }
  catch (std::bad_alloc const &)
  {
  }
  catch (std::exception const &e)
  {
    bool ok = false;
    ((ok = ok || dynamic_cast<Allowed const *>(&e) != nullptr), ...);
    if (!ok) fail(std::string(site) + "|undocumented-exception", std::string(typeid(e).name()) + ": " + e.what());
  }
  catch (...)
  {
    fail(std::string(site) + "|undocumented-exception", "non-std exception escaped");
  }
}
std::string show(std::string const &s)
{
  std::string r = "\"";
  for (unsigned char ch : s)
  {
    if (ch >= 0x20 && ch < 0x7f && ch != '"') r.push_back(static_cast<char>(ch));
    else { char b[8]; std::snprintf(b, sizeof b, "\\x%02x", ch); r += b; }
  }
  return r + "\"";
}

// ---------------------------------------------------------------------------- is_flag / next_arg
char const flag_alpha[] = {'-', 'a', '=', ' ', '7'};
std::string flag_string(Ints const &c)
{
  std::string s;
  for (i64 x : c) s.push_back(flag_alpha[static_cast<u64>(x) % sizeof(flag_alpha)]);
  return s;
}
void is_flag_one(std::string const &s)
{
  count(s.size() <= 2 || s.find_first_not_of('-') == std::string::npos);
  static bool const kn = is_known("options::impl::is_flag|lone-dash|reads-past-the-end");
  if (s == "-" && kn) { known("options::impl::is_flag|lone-dash|reads-past-the-end"); return; }
  // exact-size heap copy without a terminating NUL: reading *end() is an ASan error
  std::unique_ptr<char[]> exact(new char[s.empty() ? 1 : s.size()]);
  std::copy(s.begin(), s.end(), exact.get());
  total("options::impl::is_flag", [&] {
    auto const r = fcppt::options::impl::is_flag(fcppt::string_view(exact.get(), s.size()));
    bool const expect = !s.empty() && s[0] == '-';
    if (r.has_value() != expect) fail("options::impl::is_flag|presence", "is_flag(" + show(s) + ") has the wrong presence");
    if (r.has_value()) touch(r.get_unsafe().second);
  });
}
Reg const r_is_flag{"is_flag_exact_buffers", Kind::exhaustive, "string has at most 2 characters or consists only of dashes",
                    [] {
                      for (std::size_t len = 0; len <= 5; ++len)
                      {
                        std::size_t total_n = 1;
                        for (std::size_t i = 0; i < len; ++i) total_n *= sizeof(flag_alpha);
                        for (std::size_t k = 0; k < total_n; ++k)
                        {
                          Ints c;
                          std::size_t kk = k;
                          for (std::size_t i = 0; i < len; ++i) { c.push_back(static_cast<i64>(kk % sizeof(flag_alpha))); kk /= sizeof(flag_alpha); }
                          cur_vec(c);
                          is_flag_one(flag_string(c));
                        }
                      }
                    },
                    [](Ints const &c) { is_flag_one(flag_string(c)); },
                    [](Ints const &c) { return "options::impl::is_flag(" + show(flag_string(c)) + ") on an exact-size heap buffer"; }};

// ---------------------------------------------------------------------------- options::parse
std::vector<std::string> const &tokens()
{
  static std::vector<std::string> const v{"-", "--", "-e", "--execute", "--trunc", "-l", "--loglevel", "7", "-7", "x", "--x", "-x", "", "--help", "-ee", "--loglevel=3", " ", "\xc3\xa9", "-l7", "99999999999999999999", "---"};
  return v;
}
fcppt::args_vector decode_args(Ints const &c)
{
  fcppt::args_vector a;
  for (i64 x : c)
  {
    if (a.size() >= 14) break;
    a.push_back(tokens()[static_cast<u64>(x) % tokens().size()]);
  }
  return a;
}
std::string show_args(fcppt::args_vector const &a)
{
  std::string r = "[";
  for (auto const &s : a) r += show(s) + " ";
  return r + "]";
}

FCPPT_RECORD_MAKE_LABEL(input_label);
FCPPT_RECORD_MAKE_LABEL(output_label);
FCPPT_RECORD_MAKE_LABEL(execute_label);
FCPPT_RECORD_MAKE_LABEL(trunc_label);
FCPPT_RECORD_MAKE_LABEL(level_label);
FCPPT_RECORD_MAKE_LABEL(numbers_label);

auto make_parser()
{
  using input_t = fcppt::options::argument<input_label, fcppt::string>;
  using output_t = fcppt::options::argument<output_label, fcppt::string>;
  using execute_t = fcppt::options::switch_<execute_label>;
  using trunc_t = fcppt::options::flag<trunc_label, int>;
  using level_t = fcppt::options::option<level_label, int>;
  return fcppt::options::apply(
      input_t{fcppt::options::long_name{FCPPT_TEXT("input")}, fcppt::options::optional_help_text{fcppt::options::help_text{FCPPT_TEXT("the input")}}},
      fcppt::options::make_optional(output_t{fcppt::options::long_name{FCPPT_TEXT("output")}, fcppt::options::optional_help_text{}}),
      execute_t{fcppt::options::optional_short_name{fcppt::options::short_name{FCPPT_TEXT("e")}}, fcppt::options::long_name{FCPPT_TEXT("execute")}, fcppt::options::optional_help_text{}},
      trunc_t{fcppt::options::optional_short_name{}, fcppt::options::long_name{FCPPT_TEXT("trunc")}, trunc_t::active_value{1}, trunc_t::inactive_value{0}, fcppt::options::optional_help_text{}},
      level_t{fcppt::options::optional_short_name{fcppt::options::short_name{FCPPT_TEXT("l")}}, fcppt::options::long_name{FCPPT_TEXT("loglevel")}, level_t::optional_default_value{fcppt::optional::make(2)}, fcppt::options::optional_help_text{}});
}
auto make_many_parser()
{
  using num_t = fcppt::options::argument<numbers_label, unsigned>;
  using level_t = fcppt::options::option<level_label, int>;
  return fcppt::options::apply(
      fcppt::options::make_many(num_t{fcppt::options::long_name{FCPPT_TEXT("number")}, fcppt::options::optional_help_text{}}),
      level_t{fcppt::options::optional_short_name{fcppt::options::short_name{FCPPT_TEXT("l")}}, fcppt::options::long_name{FCPPT_TEXT("loglevel")}, level_t::optional_default_value{fcppt::optional::object<int>{}}, fcppt::options::optional_help_text{}});
}

void options_one(fcppt::args_vector const &args)
{
  bool boundary = args.empty() || args.size() == 1;
  for (auto const &a : args) boundary = boundary || a == "-" || a == "--" || a.empty() || a == "---";
  count(boundary);
  static auto const parser = make_parser();
  static auto const many_parser = make_many_parser();
  total("options::parse", [&] {
    auto const r = fcppt::options::parse(parser, args);
    std::ostringstream os;
    fcppt::either::match(
        r, [&os](fcppt::options::error const &e) { os << e; },
        [&os](auto const &rec) { os << rec; });
    touch(os.str());
    auto const r2 = fcppt::options::parse(many_parser, args);
    std::ostringstream os2;
    fcppt::either::match(
        r2, [&os2](fcppt::options::error const &e) { os2 << e; },
        [&os2](auto const &rec) { os2 << fcppt::record::get<numbers_label>(rec).size(); });
    touch(os2.str());
  });
  total("options::parse_help", [&] {
    auto const r = fcppt::options::parse_help(fcppt::options::default_help_switch(), parser, args);
    std::ostringstream os;
    fcppt::variant::match(
        r,
        [&os](auto const &res) {
          fcppt::either::match(
              res, [&os](fcppt::options::error const &e) { os << e; }, [&os](auto const &rec) { os << rec; });
        },
        [&os](fcppt::options::help_text const &h) { os << h; });
    touch(os.str());
  });
  total("options::impl::next_arg", [&] {
    fcppt::options::option_name_set names;
    names.insert(fcppt::options::option_name{fcppt::string{"loglevel"}, fcppt::options::option_name::is_short{false}});
    names.insert(fcppt::options::option_name{fcppt::string{"l"}, fcppt::options::option_name::is_short{true}});
    static bool const kn = is_known("options::impl::is_flag|lone-dash|reads-past-the-end");
    (void)kn;
    auto const r = fcppt::options::impl::next_arg(args, names);
    if (r.has_value())
    {
      if (r.get_unsafe() == args.end()) fail("options::impl::next_arg|end-iterator", "next_arg returned the end iterator as a value for " + show_args(args));
      else touch(*r.get_unsafe());
    }
    auto const r2 = fcppt::options::impl::next_arg(args, fcppt::options::option_name_set{});
    if (r2.has_value() && r2.get_unsafe() != args.end()) touch(*r2.get_unsafe());
  });
}
Reg const r_opts_ex{"options_short_vectors", Kind::exhaustive, "vector is empty or has one element, or contains '-', '--', '---' or the empty string",
                    [] {
                      std::size_t const maxlen = opts().thorough() ? 3 : 2;
                      for (std::size_t len = 0; len <= maxlen; ++len)
                      {
                        std::size_t total_n = 1;
                        for (std::size_t i = 0; i < len; ++i) total_n *= tokens().size();
                        for (std::size_t k = 0; k < total_n; ++k)
                        {
                          Ints c;
                          std::size_t kk = k;
                          for (std::size_t i = 0; i < len; ++i) { c.push_back(static_cast<i64>(kk % tokens().size())); kk /= tokens().size(); }
                          cur_vec(c);
                          options_one(decode_args(c));
                        }
                      }
                    },
                    [](Ints const &c) { options_one(decode_args(c)); },
                    [](Ints const &c) { return "options::parse / parse_help / next_arg on " + show_args(decode_args(c)); }};
Reg const r_opts_rand{"options_random_vectors", Kind::random, "vector is empty or has one element, or contains '-', '--', '---' or the empty string",
                      [] { run_random(*g_cur.sec, {3000, 4}, {30000, 4}); },
                      [](Ints const &c) { options_one(decode_args(c)); },
                      [](Ints const &c) { return "options::parse / parse_help / next_arg on " + show_args(decode_args(c)); }};

// ---------------------------------------------------------------------------- JSON grammar (from test/parse/json.cpp)
namespace json
{
struct null {};
class value
{
public:
  using type = fcppt::variant::object<json::null, bool, int, std::string, std::vector<fcppt::recursive<json::value>>, std::unordered_map<std::string, fcppt::recursive<json::value>>>;
  explicit value(type &&_impl) : impl_{std::move(_impl)} {}
  [[nodiscard]] type const &get() const { return impl_; }
private:
  type impl_;
};
using array = std::vector<fcppt::recursive<json::value>>;
using object = std::unordered_map<std::string, fcppt::recursive<json::value>>;
class double_insert {};
using entries = std::vector<fcppt::tuple::object<std::string, fcppt::recursive<json::value>>>;
json::object make_object_(json::entries &&_args)
{
  return fcppt::algorithm::fold(
      fcppt::container::make_move_range(std::move(_args)), object{},
      [](fcppt::tuple::object<std::string, fcppt::recursive<json::value>> &&_element, json::object &&_state) {
        if (fcppt::not_(fcppt::container::insert(_state, json::object::value_type{std::move(fcppt::tuple::get<0>(_element)), std::move(fcppt::tuple::get<1>(_element))})))
          throw json::double_insert{};
        return std::move(_state);
      });
}
fcppt::parse::result<char, json::object> make_object(json::entries &&_args)
{
  return fcppt::either::try_call<json::double_insert>(
      [&_args] { return make_object_(std::move(_args)); },
      [](json::double_insert const &) { return fcppt::parse::error<char>{std::string{"Double insert"}}; });
}
using start = fcppt::variant::object<json::array, json::object>;
}
using skipper = decltype(fcppt::parse::skipper::space());
template <typename Type>
using base = fcppt::parse::base_unique_ptr<Type, char, skipper>;
namespace parse = fcppt::parse;
class json_parser
{
  FCPPT_NONMOVABLE(json_parser);
public:
  json_parser()
      : string_{parse::make_base<char, skipper>(parse::literal('"') >> parse::make_lexeme(*~parse::char_set{'"'}) >> parse::literal('"'))},
        value_{parse::make_base<char, skipper>(parse::construct<json::value>(
            parse::convert_const(parse::string("null"), json::null{}) |
            (parse::convert_const(parse::string("true"), true) | parse::convert_const(parse::string("false"), false)) |
            parse::int_<int>{} | fcppt::make_cref(string_) | fcppt::make_cref(array_) | fcppt::make_cref(object_)))},
        object_{parse::make_base<char, skipper>(parse::make_convert_if(
            parse::literal('{') >> parse::separator(fcppt::make_cref(string_) >> parse::literal(':') >> parse::make_recursive(fcppt::make_cref(value_)), parse::literal{','}) >> parse::literal('}'),
            [](json::entries &&_entries) { return json::make_object(std::move(_entries)); }))},
        array_{parse::make_base<char, skipper>(parse::literal('[') >> parse::separator(parse::make_recursive(fcppt::make_cref(value_)), parse::literal{','}) >> parse::literal(']'))},
        start_{parse::make_base<char, skipper>(fcppt::make_cref(array_) | fcppt::make_cref(object_))}
  {
  }
  ~json_parser() = default;
  [[nodiscard]] base<json::start> const &get() const { return start_; }
private:
  base<std::string> string_;
  base<json::value> value_;
  base<json::object> object_;
  base<json::array> array_;
  base<json::start> start_;
};

char const json_alpha[] = {'[', ']', '{', '}', '"', ':', ',', ' ', 'a', '1', '-', 'n', 'u', 'l', 't', 'r', 'e', 'f', 's', '\n', '\0', '9', '\xff'};
std::string json_string(Ints const &c)
{
  // the first word selects a valid skeleton that the remaining words mutate; pure noise rarely gets deep
  static std::vector<std::string> const seeds{"", "[]", "{}", "[1,2,3]", "{\"a\":1}", "[[[[[[1]]]]]]", "{\"a\":[true,false,null],\"b\":{\"c\":-7}}", "[\"x\",\"y\"]", "{\"a\":1,\"a\":2}", "[99999999999]", "[-2147483648]", "[ 1 , 2 ]\n", "[-]", "{\"a\"}", "[\"unterminated"};
  if (c.empty()) return "";
  std::string s = seeds[static_cast<u64>(c[0]) % seeds.size()];
  for (std::size_t i = 1; i + 1 < c.size() && i < 24; i += 2)
  {
    char const ch = json_alpha[static_cast<u64>(c[i + 1]) % sizeof(json_alpha)];
    std::size_t const pos = static_cast<std::size_t>(static_cast<u64>(c[i]) % (s.size() + 1));
    switch ((static_cast<u64>(c[i]) >> 16) % 3)
    {
    case 0: s.insert(s.begin() + static_cast<std::ptrdiff_t>(pos), ch); break;
    case 1: if (pos < s.size()) s[pos] = ch; break;
    default: if (pos < s.size()) s.erase(s.begin() + static_cast<std::ptrdiff_t>(pos)); break;
    }
  }
  return s;
}
void json_one(std::string const &s)
{
  static json_parser const parser;
  count(s.empty() || s.find('\0') != std::string::npos || s.find("[[") != std::string::npos || s.find('"') != std::string::npos);
  total("parse::phrase_parse_string", [&] {
    auto const r = fcppt::parse::phrase_parse_string(fcppt::parse::deref(parser.get()), std::string{s}, fcppt::parse::skipper::space());
    cls(r.has_success() ? "json-accepted" : "json-rejected");
    if (r.has_failure()) touch(r.get_failure_unsafe().get());
    else touch(std::to_string(r.get_success_unsafe().type_index()));
  });
  total("parse::phrase_parse_stream", [&] {
    std::istringstream is(s);
    auto const r = fcppt::parse::phrase_parse_stream(fcppt::parse::deref(parser.get()), is, fcppt::parse::skipper::space());
    if (r.has_failure()) touch(r.get_failure_unsafe().get());
  });
}
Reg const r_json{"json_grammar_inputs", Kind::random, "input is empty, contains NUL, a nested array or a string literal",
                 [] { run_random(*g_cur.sec, {6000, 8}, {60000, 8}); },
                 [](Ints const &c) { json_one(json_string(c)); },
                 [](Ints const &c) { return "phrase_parse_string/stream(JSON grammar, " + show(json_string(c)) + ")"; }};
}
