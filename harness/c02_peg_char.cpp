// VERIF: lib rc quick_shards=1 fuzz=peg_dynamic_char
// C02 - run-time generated grammars vs the PEG reference interpreter, char instantiation.
#include "c02_peg.hpp"

namespace
{
using namespace verif;
Reg const r_peg{"peg_dynamic_char", Kind::random,
                "the reference run rewound after consuming input (a failed alternative / optional / repetition element / lookahead that had consumed >= 1 character), or ran a non-epsilon skipper that consumed input, or propagated a fatal error",
                [] { run_random(*g_cur.sec, {50000, 40}, {200000, 48}); },
                [](Ints const &c) { c02::real<char>::run_case(c, "char"); },
                [](Ints const &c) { return c02::describe(c, "char"); }};
Reg const r_long{"peg_long_inputs_char", Kind::exhaustive,
                 "every case (inputs of 0..2000 characters / bracket depth up to 300 / up to 2000 earlier parses through the same parser objects, over grammars with a type-erased rule that fails and is backtracked over)",
                 [] { c02::long_run<char>("char"); },
                 [](Ints const &c) { c02::long_one<char>(c, "char"); },
                 [](Ints const &c) { return c02::long_describe(c, "char"); }};
}
