// C14 - vector / dim checks for one dimension N, shared by the c14_vec*.cpp harnesses.
// Operands: vectors a, b (storage: static, view, row view), the dim with the components of b
// (storage: static, view), a scalar k. Reference: plain loops over std::array.
#ifndef VERIF_C14_VECTOR_HPP
#define VERIF_C14_VECTOR_HPP

#include "c14_common.hpp"

#include <fcppt/cast/size_fun.hpp>
#include <fcppt/math/dim/arithmetic.hpp>
#include <fcppt/math/dim/at.hpp>
#include <fcppt/math/dim/binary_map.hpp>
#include <fcppt/math/dim/comparison.hpp>
#include <fcppt/math/dim/contents.hpp>
#include <fcppt/math/dim/fill.hpp>
#include <fcppt/math/dim/init.hpp>
#include <fcppt/math/dim/is_quadratic.hpp>
#include <fcppt/math/dim/map.hpp>
#include <fcppt/math/dim/narrow_cast.hpp>
#include <fcppt/math/dim/null.hpp>
#include <fcppt/math/dim/push_back.hpp>
#include <fcppt/math/dim/structure_cast.hpp>
#include <fcppt/math/dim/to_signed.hpp>
#include <fcppt/math/dim/to_unsigned.hpp>
#include <fcppt/math/dim/to_vector.hpp>
#include <fcppt/math/vector/arithmetic.hpp>
#include <fcppt/math/vector/at.hpp>
#include <fcppt/math/vector/binary_map.hpp>
#include <fcppt/math/vector/bit_strings.hpp>
#include <fcppt/math/vector/comparison.hpp>
#include <fcppt/math/vector/cross.hpp>
#include <fcppt/math/vector/dim.hpp>
#include <fcppt/math/vector/dot.hpp>
#include <fcppt/math/vector/fill.hpp>
#include <fcppt/math/vector/init.hpp>
#include <fcppt/math/vector/length_square.hpp>
#include <fcppt/math/vector/map.hpp>
#include <fcppt/math/vector/narrow_cast.hpp>
#include <fcppt/math/vector/null.hpp>
#include <fcppt/math/vector/push_back.hpp>
#include <fcppt/math/vector/structure_cast.hpp>
#include <fcppt/math/vector/to_dim.hpp>
#include <fcppt/math/vector/to_signed.hpp>
#include <fcppt/math/vector/to_unsigned.hpp>
#include <fcppt/math/vector/unit.hpp>
#include <fcppt/optional/object.hpp>

#include <algorithm>

namespace c14
{
template <std::size_t N>
std::string const &vlbl()
{
  static std::string const s = "dimension " + std::to_string(N);
  return s;
}

template <typename T, std::size_t N, typename F>
Vec<T, N> r_zip(Vec<T, N> const &a, Vec<T, N> const &b, F const &f)
{
  Vec<T, N> r{};
  for (std::size_t i = 0; i < N; ++i) r[i] = f(a[i], b[i]);
  return r;
}
// optional<object> -> (has_value, array)
template <typename O>
auto opt_arr(fcppt::optional::object<O> const &o)
{
  using A = decltype(to_arr(std::declval<O const &>()));
  return o.has_value() ? std::make_pair(true, to_arr(o.get_unsafe())) : std::make_pair(false, A{});
}
// reference for the component-wise division: nothing if a divisor is 0, else C++ integer division
template <typename T, std::size_t N>
std::pair<bool, Vec<T, N>> r_div(Vec<T, N> const &a, Vec<T, N> const &b)
{
  Vec<T, N> r{};
  for (std::size_t i = 0; i < N; ++i)
  {
    if (b[i] == 0) return {false, Vec<T, N>{}};
    r[i] = a[i] / b[i];
  }
  return {true, r};
}

// element accessors of a vector: at<I>, get_unsafe, x/y/z/w
template <typename T, std::size_t N, std::size_t I, typename V>
bool vec_access_one(V const &v, Vec<T, N> const &a)
{
  bool ok = fcppt::math::vector::at<I>(v) == a[I] && v.get_unsafe(I) == a[I];
  if constexpr (I == 0) ok = ok && v.x() == a[I];
  if constexpr (I == 1) ok = ok && v.y() == a[I];
  if constexpr (I == 2) ok = ok && v.z() == a[I];
  if constexpr (I == 3) ok = ok && v.w() == a[I];
  return ok;
}
template <typename T, std::size_t N, std::size_t I, typename D>
bool dim_access_one(D const &d, Vec<T, N> const &a)
{
  bool ok = fcppt::math::dim::at<I>(d) == a[I] && d.get_unsafe(I) == a[I];
  if constexpr (I == 0) ok = ok && d.w() == a[I];
  if constexpr (I == 1) ok = ok && d.h() == a[I];
  if constexpr (I == 2) ok = ok && d.d() == a[I];
  return ok;
}
template <typename T, std::size_t N, std::size_t I, typename V>
void vec_write_one(V &v, Vec<T, N> const &a, int const route)
{
  if (route == 0) fcppt::math::vector::at<I>(v) = a[I];
  else if (route == 1) v.get_unsafe(I) = a[I];
  else
  {
    if constexpr (I == 0) v.x() = a[I];
    if constexpr (I == 1) v.y() = a[I];
    if constexpr (I == 2) v.z() = a[I];
    if constexpr (I == 3) v.w() = a[I];
    if constexpr (I > 3) v.get_unsafe(I) = a[I];
  }
}
template <typename T, std::size_t N, std::size_t I, typename D>
void dim_write_one(D &d, Vec<T, N> const &a, int const route)
{
  if (route == 0) fcppt::math::dim::at<I>(d) = a[I];
  else if (route == 1) d.get_unsafe(I) = a[I];
  else
  {
    if constexpr (I == 0) d.w() = a[I];
    if constexpr (I == 1) d.h() = a[I];
    if constexpr (I == 2) d.d() = a[I];
    if constexpr (I > 2) d.get_unsafe(I) = a[I];
  }
}

// ---------------------------------------------------------------- construction, access, builders (one operand)
template <typename T, std::size_t N, std::size_t... I>
void check_vec_single(Vec<T, N> const &a, int const mode, T const k, std::index_sequence<I...>)
{
  namespace fv = fcppt::math::vector;
  namespace fd = fcppt::math::dim;
  std::string const &L = vlbl<N>();
  using SV = svec<T, N>;
  using SD = sdim<T, N>;
  auto what = [&] { return std::string(storage_name(mode)) + " " + show_arr(a) + ", k = " + std::to_string(static_cast<long long>(k)); };
  // construction routes
  {
    SV const direct(make_svec<T, N>(a));
    SV const from_storage{typename SV::storage_type(a[I]...)};
    SV const inited(fv::init<SV>([&a](size_type const i) { return a[i]; }));
    Vec<T, N> buf = a;
    vvec<T, N> const view{view_storage<T, N>(buf.data())};
    SV const converted(view);
    SV assigned{fcppt::no_init{}};
    assigned = view;
    Vec<T, N> buf2{};
    vvec<T, N> target{view_storage<T, N>(buf2.data())};
    target = direct;
    if (to_arr(direct) != a || to_arr(from_storage) != a || to_arr(inited) != a || to_arr(converted) != a || to_arr(assigned) != a || buf2 != a)
      verif::fail("vector::object|construction|" + L, what());
    for (int route = 0; route < 3; ++route)
    {
      SV w(make_svec<T, N>(Vec<T, N>{}));
      (vec_write_one<T, N, I>(w, a, route), ...);
      Vec<T, N> buf3{};
      vvec<T, N> wv{view_storage<T, N>(buf3.data())};
      (vec_write_one<T, N, I>(wv, a, route), ...);
      if (to_arr(w) != a || buf3 != a) verif::fail("vector::object|element-writes|" + L, what());
    }
    SD const ddirect(make_sdim<T, N>(a));
    SD const dinited(fd::init<SD>([&a](size_type const i) { return a[i]; }));
    vdim<T, N> const dview{view_storage<T, N>(buf.data())};
    SD const dconverted(dview);
    SD dassigned{fcppt::no_init{}};
    dassigned = dview;
    if (to_arr(ddirect) != a || to_arr(dinited) != a || to_arr(dconverted) != a || to_arr(dassigned) != a) verif::fail("dim::object|construction|" + L, what());
    for (int route = 0; route < 3; ++route)
    {
      SD w(make_sdim<T, N>(Vec<T, N>{}));
      (dim_write_one<T, N, I>(w, a, route), ...);
      if (to_arr(w) != a) verif::fail("dim::object|element-writes|" + L, what());
    }
  }
  // access
  if (!with_vec<T, N>(mode, a, [&](auto const &v) { return (vec_access_one<T, N, I>(v, a) && ...); })) verif::fail("vector::at/get_unsafe/x..w|vs-array|" + L, what());
  if (!with_dim<T, N>(mode & 1, a, [&](auto const &d) { return (dim_access_one<T, N, I>(d, a) && ...); })) verif::fail("dim::at/get_unsafe/w,h,d|vs-array|" + L, what());
  // null, fill, unit
  {
    Vec<T, N> zero{}, filled{};
    filled.fill(k);
    if (to_arr(fv::null<SV>()) != zero || to_arr(fv::null<vvec<T, N>>()) != zero || to_arr(fd::null<SD>()) != zero) verif::fail("vector::null|vs-array|" + L, "");
    if (to_arr(fv::fill<SV>(k)) != filled || to_arr(fd::fill<SD>(k)) != filled) verif::fail("vector::fill|vs-array|" + L, what());
    for (std::size_t axis = 0; axis < N; ++axis)
    {
      Vec<T, N> e{};
      e[axis] = 1;
      if (to_arr(fv::unit<SV>(axis)) != e) verif::fail("vector::unit|vs-array|" + L, "axis " + std::to_string(axis));
    }
  }
  // unary minus, scalar multiplication (both sides), scalar division, map, length_square
  with_vec<T, N>(mode, a, [&](auto const &v) {
    Vec<T, N> neg{}, sq{};
    T len = 0;
    for (std::size_t i = 0; i < N; ++i)
    {
      neg[i] = -a[i];
      sq[i] = a[i] * a[i] - 1;
      len += a[i] * a[i];
    }
    if (to_arr(-v) != neg) verif::fail("vector::operator-(unary)|vs-reference|" + L, what());
    if (to_arr(v * k) != r_scale(a, k) || to_arr(k * v) != r_scale(a, k)) verif::fail("vector::operator*(scalar)|vs-reference|" + L, what());
    Vec<T, N> ks{};
    ks.fill(k);
    if (opt_arr(v / k) != r_div<T, N>(a, ks)) verif::fail("vector::operator/(scalar)|vs-reference|" + L, what());
    if (to_arr(fv::map(v, [](T const e) { return e * e - 1; })) != sq) verif::fail("vector::map|vs-reference|" + L, what());
    if (fv::length_square(v) != len) verif::fail("vector::length_square|vs-reference|" + L, what() + ": " + std::to_string(static_cast<long long>(fv::length_square(v))));
    // push_back / narrow_cast
    auto const pushed = fv::push_back(v, k);
    VERIF_TYPE_FACT((std::is_same_v<std::remove_cv_t<decltype(pushed)>, svec<T, N + 1>>), "std::is_same_v<std::remove_cv_t<decltype(pushed)>, svec<T, N + 1>>");
    auto const parr = to_arr(pushed);
    bool ok = parr[N] == k;
    for (std::size_t i = 0; i < N; ++i) ok = ok && parr[i] == a[i];
    if (!ok) verif::fail("vector::push_back|vs-array|" + L, what() + ": " + show_arr(parr));
    if (to_arr(fv::narrow_cast<SV>(pushed)) != a) verif::fail("vector::narrow_cast|narrow_cast(push_back(v,k))=v|" + L, what());
    if constexpr (N >= 2)
    {
      auto const narrowed = to_arr(fv::narrow_cast<svec<T, N - 1>>(v));
      for (std::size_t i = 0; i + 1 < N; ++i)
        if (narrowed[i] != a[i]) verif::fail("vector::narrow_cast|prefix|" + L, what());
      if constexpr (N >= 3)
      {
        auto const narrowed2 = to_arr(fv::narrow_cast<svec<T, N - 2>>(v));
        for (std::size_t i = 0; i + 2 < N; ++i)
          if (narrowed2[i] != a[i]) verif::fail("vector::narrow_cast|prefix|" + L, what());
      }
    }
    // structure_cast, to_dim
    std::array<long long, N> wide{}, wide3{};
    for (std::size_t i = 0; i < N; ++i)
    {
      wide[i] = a[i];
      wide3[i] = static_cast<long long>(a[i]) * 3;
    }
    if (to_arr(fv::structure_cast<svec<long long, N>, fcppt::cast::size_fun>(v)) != wide || to_arr(fv::structure_cast<svec<long long, N>, times3_conv>(v)) != wide3)
      verif::fail("vector::structure_cast|vs-reference|" + L, what());
    if (to_arr(fv::to_dim(v)) != a) verif::fail("vector::to_dim|vs-array|" + L, what());
    return 0;
  });
  // to_unsigned / to_signed on the absolute values (to_unsigned is only defined for non-negative components)
  {
    Vec<T, N> abs{};
    std::array<std::make_unsigned_t<T>, N> uabs{};
    for (std::size_t i = 0; i < N; ++i)
    {
      abs[i] = a[i] < 0 ? -a[i] : a[i];
      uabs[i] = static_cast<std::make_unsigned_t<T>>(abs[i]);
    }
    with_vec<T, N>(mode, abs, [&](auto const &v) {
      auto const u = fv::to_unsigned(v);
      if (to_arr(u) != uabs || to_arr(fv::to_signed(u)) != abs) verif::fail("vector::to_unsigned/to_signed|round-trip|" + L, what());
      return 0;
    });
    with_dim<T, N>(mode & 1, abs, [&](auto const &d) {
      auto const u = fd::to_unsigned(d);
      if (to_arr(u) != uabs || to_arr(fd::to_signed(u)) != abs) verif::fail("dim::to_unsigned/to_signed|round-trip|" + L, what());
      return 0;
    });
  }
  // dim: unary minus, scalar ops, contents, is_quadratic, push_back / narrow_cast, structure_cast, to_vector, map
  with_dim<T, N>(mode & 1, a, [&](auto const &d) {
    Vec<T, N> neg{}, sq{};
    T prod = 1;
    bool quad = true;
    for (std::size_t i = 0; i < N; ++i)
    {
      neg[i] = -a[i];
      sq[i] = a[i] * a[i] - 1;
      prod *= a[i];
      quad = quad && a[i] == a[0];
    }
    if (to_arr(-d) != neg) verif::fail("dim::operator-(unary)|vs-reference|" + L, what());
    if (to_arr(d * k) != r_scale(a, k) || to_arr(k * d) != r_scale(a, k)) verif::fail("dim::operator*(scalar)|vs-reference|" + L, what());
    Vec<T, N> ks{};
    ks.fill(k);
    if (opt_arr(d / k) != r_div<T, N>(a, ks)) verif::fail("dim::operator/(scalar)|vs-reference|" + L, what());
    if (fd::contents(d) != prod) verif::fail("dim::contents|vs-reference|" + L, what());
    if (fd::is_quadratic(d) != quad) verif::fail("dim::is_quadratic|vs-reference|" + L, what());
    if (to_arr(fd::map(d, [](T const e) { return e * e - 1; })) != sq) verif::fail("dim::map|vs-reference|" + L, what());
    auto const pushed = fd::push_back(d, k);
    auto const parr = to_arr(pushed);
    bool ok = parr[N] == k;
    for (std::size_t i = 0; i < N; ++i) ok = ok && parr[i] == a[i];
    if (!ok || to_arr(fd::narrow_cast<SD>(pushed)) != a) verif::fail("dim::push_back/narrow_cast|vs-array|" + L, what());
    if constexpr (N >= 2)
    {
      auto const narrowed = to_arr(fd::narrow_cast<sdim<T, N - 1>>(d));
      for (std::size_t i = 0; i + 1 < N; ++i)
        if (narrowed[i] != a[i]) verif::fail("dim::narrow_cast|prefix|" + L, what());
    }
    std::array<long long, N> wide3{};
    for (std::size_t i = 0; i < N; ++i) wide3[i] = static_cast<long long>(a[i]) * 3;
    if (to_arr(fd::structure_cast<sdim<long long, N>, times3_conv>(d)) != wide3) verif::fail("dim::structure_cast|vs-reference|" + L, what());
    if (to_arr(fd::to_vector(d)) != a) verif::fail("dim::to_vector|vs-array|" + L, what());
    return 0;
  });
  // scalar member operator
  {
    SV s(make_svec<T, N>(a));
    s *= k;
    Vec<T, N> buf = a;
    vvec<T, N> w{view_storage<T, N>(buf.data())};
    w *= k;
    SD ds(make_sdim<T, N>(a));
    ds *= k;
    if (to_arr(s) != r_scale(a, k) || buf != r_scale(a, k) || to_arr(ds) != r_scale(a, k)) verif::fail("vector::operator*=(scalar)|vs-reference|" + L, what());
  }
  // the scalar refers to a component of the object itself (v *= v.x()): every component is
  // multiplied by the value the scalar had at the call
  {
    SV s(make_svec<T, N>(a));
    s *= s.storage()[0];
    Vec<T, N> buf = a;
    vvec<T, N> w{view_storage<T, N>(buf.data())};
    w *= w.storage()[0];
    SD ds(make_sdim<T, N>(a));
    ds *= ds.storage()[0];
    if (to_arr(s) != r_scale(a, a[0]) || buf != r_scale(a, a[0]) || to_arr(ds) != r_scale(a, a[0]))
      verif::fail("vector::operator*=(scalar)|scalar-aliases-a-component|" + L, what());
  }
  // the right operand is the object itself: v += v, v *= v (component-wise), v -= v
  {
    Vec<T, N> twice = a, sq = a, zero = a;
    for (std::size_t i = 0; i < N; ++i) { twice[i] = static_cast<T>(a[i] + a[i]); sq[i] = static_cast<T>(a[i] * a[i]); zero[i] = 0; }
    SV s(make_svec<T, N>(a));
    s += s;
    bool ok = to_arr(s) == twice;
    SV s2(make_svec<T, N>(a));
    s2 *= s2;
    ok = ok && to_arr(s2) == sq;
    SV s3(make_svec<T, N>(a));
    s3 -= s3;
    ok = ok && to_arr(s3) == zero;
    Vec<T, N> buf = a;
    vvec<T, N> w{view_storage<T, N>(buf.data())};
    w += w;
    ok = ok && buf == twice;
    SD d(make_sdim<T, N>(a));
    d += d;
    ok = ok && to_arr(d) == twice;
    if (!ok) verif::fail("vector::operator+=,-=,*=|operand-is-the-object-itself|" + L, what());
  }
}

// ---------------------------------------------------------------- two operands
template <typename T, std::size_t N>
int lex_cmp(Vec<T, N> const &a, Vec<T, N> const &b)
{
  for (std::size_t i = 0; i < N; ++i)
  {
    if (a[i] < b[i]) return -1;
    if (b[i] < a[i]) return 1;
  }
  return 0;
}

template <typename T, std::size_t N>
void check_vec_pair(Vec<T, N> const &a, Vec<T, N> const &b, int const ma, int const mb)
{
  namespace fv = fcppt::math::vector;
  namespace fd = fcppt::math::dim;
  std::string const &L = vlbl<N>();
  auto what = [&] { return "a = " + show_arr(a) + " (" + storage_name(ma) + "), b = " + show_arr(b) + " (" + storage_name(mb) + ")"; };
  auto const sum = r_zip<T, N>(a, b, [](T x, T y) { return x + y; });
  auto const diff = r_zip<T, N>(a, b, [](T x, T y) { return x - y; });
  auto const prod = r_zip<T, N>(a, b, [](T x, T y) { return x * y; });
  auto const quot = r_div<T, N>(a, b);
  T dot = 0;
  for (std::size_t i = 0; i < N; ++i) dot += a[i] * b[i];
  int const cmp = lex_cmp<T, N>(a, b);

  // vector (op) vector
  with_vec<T, N>(ma, a, [&](auto const &x) {
    return with_vec<T, N>(mb, b, [&](auto const &y) {
      if (to_arr(x + y) != sum) verif::fail("vector::operator+|vs-reference|" + L, what() + ": " + show_arr(to_arr(x + y)));
      if (to_arr(x - y) != diff) verif::fail("vector::operator-|vs-reference|" + L, what() + ": " + show_arr(to_arr(x - y)));
      if (to_arr(x * y) != prod) verif::fail("vector::operator*|vs-reference|" + L, what() + ": " + show_arr(to_arr(x * y)));
      if (opt_arr(x / y) != quot) verif::fail("vector::operator/|vs-reference|" + L, what());
      if (to_arr(y + x) != sum || to_arr(y * x) != prod) verif::fail("vector::operator+,*|commutative|" + L, what());
      // the value category of an operand does not matter: temporaries on either side
      {
        auto const a_minus_2b = r_zip<T, N>(a, b, [](T p, T q) { return p - 2 * q; });
        auto const a_plus_2b = r_zip<T, N>(a, b, [](T p, T q) { return p + 2 * q; });
        auto const twice_diff = r_zip<T, N>(a, b, [](T p, T q) { return 2 * p - 2 * q; });
        if (to_arr(x - (y + y)) != a_minus_2b) verif::fail("vector::operator-|temporary-right-operand|" + L, what() + ": a - (b + b) = " + show_arr(to_arr(x - (y + y))));
        if (to_arr(x - (-y)) != sum) verif::fail("vector::operator-|temporary-right-operand|" + L, what() + ": a - (-b) = " + show_arr(to_arr(x - (-y))));
        if (to_arr((x + y) - y) != a) verif::fail("vector::operator-|temporary-left-operand|" + L, what() + ": (a + b) - b = " + show_arr(to_arr((x + y) - y)));
        if (to_arr((x + x) - (y + y)) != twice_diff) verif::fail("vector::operator-|temporary-operands|" + L, what() + ": (a + a) - (b + b) = " + show_arr(to_arr((x + x) - (y + y))));
        if (to_arr(x + (y + y)) != a_plus_2b || to_arr((y + y) + x) != a_plus_2b) verif::fail("vector::operator+|temporary-operand|" + L, what());
        if (to_arr((x - y) * (x - y)) != r_zip<T, N>(a, b, [](T p, T q) { return (p - q) * (p - q); })) verif::fail("vector::operator*|temporary-operands|" + L, what());
      }
      if (fv::dot(x, y) != dot || fv::dot(y, x) != dot) verif::fail("vector::dot|vs-reference|" + L, what() + ": " + std::to_string(static_cast<long long>(fv::dot(x, y))) + ", expected " + std::to_string(static_cast<long long>(dot)));
      if (fv::length_square(x + y) != fv::length_square(x) + 2 * fv::dot(x, y) + fv::length_square(y)) verif::fail("vector::length_square|binomial|" + L, what());
      if (to_arr(fv::binary_map(x, y, [](T const p, T const q) { return p * 3 + q; })) != r_zip<T, N>(a, b, [](T p, T q) { return p * 3 + q; })) verif::fail("vector::binary_map|vs-reference|" + L, what());
      // comparison = lexicographic on the arrays
      // The ordering operators are declared for two storage types but only compile for equal ones
      // (detail::array_less takes two arguments of one type): they are exercised with equal storages only.
      bool ok = (x == y) == (cmp == 0) && (x != y) == (cmp != 0);
      if constexpr (std::is_same_v<decltype(x), decltype(y)>)
        ok = ok && (x < y) == (cmp < 0) && (x > y) == (cmp > 0) && (x <= y) == (cmp <= 0) && (x >= y) == (cmp >= 0);
      if (!ok) verif::fail("vector::comparison|vs-lexicographic-array-order|" + L, what());
      if constexpr (N == 3)
      {
        Vec<T, 3> const cr{{a[1] * b[2] - a[2] * b[1], a[2] * b[0] - a[0] * b[2], a[0] * b[1] - a[1] * b[0]}};
        auto const c1 = fv::cross(x, y);
        auto const c2 = fv::cross(y, x);
        if (to_arr(c1) != cr) verif::fail("vector::cross|vs-reference|" + L, what() + ": " + show_arr(to_arr(c1)));
        if (to_arr(-c2) != cr) verif::fail("vector::cross|anticommutative|" + L, what());
        if (fv::dot(c1, x) != 0 || fv::dot(c1, y) != 0) verif::fail("vector::cross|orthogonal|" + L, what());
      }
      // member operators on a static copy and on a view
      {
        svec<T, N> s(make_svec<T, N>(a));
        s += y;
        bool mok = to_arr(s) == sum;
        s -= y;
        s -= y;
        mok = mok && to_arr(s) == diff;
        s = x;
        s *= y;
        mok = mok && to_arr(s) == prod;
        Vec<T, N> buf = a;
        vvec<T, N> w{view_storage<T, N>(buf.data())};
        w += y;
        mok = mok && buf == sum;
        w -= y;
        w -= y;
        mok = mok && buf == diff;
        // (assigning x to w could be the implicit copy assignment, which re-targets the view: use a fresh one)
        Vec<T, N> buf2 = a;
        vvec<T, N> w2{view_storage<T, N>(buf2.data())};
        w2 *= y;
        mok = mok && buf2 == prod;
        if (!mok) verif::fail("vector::operator+=,-=,*=|vs-reference|" + L, what());
      }
      return 0;
    });
  });
  // vector (op) dim, dim (op) dim
  int const md = mb & 1;
  with_dim<T, N>(md, b, [&](auto const &d) {
    with_vec<T, N>(ma, a, [&](auto const &x) {
      if (to_arr(x + d) != sum || to_arr(x - d) != diff || to_arr(x * d) != prod || opt_arr(x / d) != quot) verif::fail("vector::operator(+,-,*,/)(dim)|vs-reference|" + L, what());
      return 0;
    });
    with_dim<T, N>(ma & 1, a, [&](auto const &e) {
      if (to_arr(e + d) != sum) verif::fail("dim::operator+|vs-reference|" + L, what());
      if (to_arr(e - d) != diff) verif::fail("dim::operator-|vs-reference|" + L, what());
      if (to_arr(e * d) != prod) verif::fail("dim::operator*|vs-reference|" + L, what());
      if (opt_arr(e / d) != quot) verif::fail("dim::operator/|vs-reference|" + L, what());
      if (to_arr(fd::binary_map(e, d, [](T const p, T const q) { return p * 3 + q; })) != r_zip<T, N>(a, b, [](T p, T q) { return p * 3 + q; })) verif::fail("dim::binary_map|vs-reference|" + L, what());
      bool ok = (e == d) == (cmp == 0) && (e != d) == (cmp != 0);
      if constexpr (std::is_same_v<decltype(e), decltype(d)>)
        ok = ok && (e < d) == (cmp < 0) && (e > d) == (cmp > 0) && (e <= d) == (cmp <= 0) && (e >= d) == (cmp >= 0);
      if (!ok) verif::fail("dim::comparison|vs-lexicographic-array-order|" + L, what());
      sdim<T, N> s(make_sdim<T, N>(a));
      s += d;
      bool mok = to_arr(s) == sum;
      s -= d;
      s -= d;
      mok = mok && to_arr(s) == diff;
      s = e;
      s *= d;
      mok = mok && to_arr(s) == prod;
      if (!mok) verif::fail("dim::operator+=,-=,*=|vs-reference|" + L, what());
      return 0;
    });
    return 0;
  });
}

// bit_strings<T,N>(): element j has component i equal to bit i of j (see the listing in the documentation)
template <typename T, std::size_t N>
void check_bit_strings()
{
  auto const bs = fcppt::math::vector::bit_strings<T, N>();
  std::size_t j = 0;
  bool ok = true;
  for (auto const &v : bs)
  {
    for (std::size_t i = 0; i < N; ++i) ok = ok && v.storage()[i] == static_cast<T>((j >> i) & 1U);
    ++j;
  }
  if (!ok || j != (std::size_t{1} << N)) verif::fail("vector::bit_strings|vs-reference|" + vlbl<N>(), "bit_strings<" + std::to_string(N) + "> is not the list of bit patterns in counting order");
}
}

#endif
