// VERIF: quick_shards=6
// C04 - fcppt::either combinators, exhaustive over complete function tables with call counters; the sections
// are in c04_either_impl.hpp (shared with the heap-payload variant c04_heap_either.cpp).
#include "c04_either_impl.hpp"
