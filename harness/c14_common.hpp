// C14 - shared pieces of the vector / dim / matrix harnesses.
// Data model of the harness: a matrix is a std::array in row-major order ("The matrix's internal
// representation is row-major", matrix.doxygen), a vector / dim a std::array. Every fcppt operation
// is wrapped as a function from such arrays to such arrays with a "storage mode" per operand:
//   0 = static storage (fcppt::math::*::static_), built through the documented constructors
//   1 = view storage: an object<T,N,view_storage> looking at a plain buffer owned by the harness
//   2 = (vectors only) a row view: the vector is row 1 of a 3 x N matrix, obtained through get_unsafe(1)
// Results (always static storage) are read back through storage()[i].
// The reference is written with plain loops over the arrays (triple-loop product, cofactor expansion
// along the first ROW - fcppt expands along the first column -, minors by copying).
#ifndef VERIF_C14_COMMON_HPP
#define VERIF_C14_COMMON_HPP

#include "verif.hpp"

#include <fcppt/no_init.hpp>
#include <fcppt/cast/size_fun.hpp>
#include <fcppt/math/size_type.hpp>
#include <fcppt/math/static_size.hpp>
#include <fcppt/math/matrix/object_impl.hpp>
#include <fcppt/math/matrix/row.hpp>
#include <fcppt/math/matrix/static.hpp>
#include <fcppt/math/vector/object_impl.hpp>
#include <fcppt/math/vector/static.hpp>
#include <fcppt/math/dim/object_impl.hpp>
#include <fcppt/math/dim/static.hpp>

#include <array>
#include <cstddef>
#include <string>
#include <utility>
#include <vector>

namespace c14
{
using verif::i64;
using verif::Ints;
using fcppt::math::size_type;

template <typename T, std::size_t R, std::size_t C>
using Mat = std::array<T, R * C>;
template <typename T, std::size_t N>
using Vec = std::array<T, N>;

// ---------------------------------------------------------------- printing (only used when failing)
template <typename T, std::size_t N>
std::string show_arr(std::array<T, N> const &a, std::size_t cols = 0)
{
  std::string r = "[";
  for (std::size_t i = 0; i < N; ++i)
  {
    if (i) r += (cols && i % cols == 0) ? "; " : ",";
    r += std::to_string(static_cast<long long>(a[i]));
  }
  return r + "]";
}
template <std::size_t R, std::size_t C>
std::string dims()
{
  return std::to_string(R) + "x" + std::to_string(C);
}
inline char const *storage_name(int mode) { return mode == 0 ? "static" : mode == 1 ? "view" : "row-view"; }

// ---------------------------------------------------------------- view storage over a harness-owned buffer
// operator[] range-checks: an index outside [0,N) is reported as a violation instead of touching memory.
template <typename T, size_type N>
class view_storage
{
public:
  using value_type = T;
  using size_type = fcppt::math::size_type;
  using storage_size = fcppt::math::static_size<N>;
  using pointer = T *;
  using reference = T &;
  using const_reference = T const &;
  explicit view_storage(pointer const p) : data_(p) {}
  reference operator[](size_type const i) { return data_[check(i)]; }
  const_reference operator[](size_type const i) const { return data_[check(i)]; }

private:
  static size_type check(size_type const i)
  {
    if (i < N) return i;
    verif::fail("math::view-storage|index-out-of-range|any", "fcppt accessed element " + std::to_string(i) + " of a storage with " + std::to_string(N) + " elements");
    return 0;
  }
  pointer data_;
};

template <typename T, std::size_t R, std::size_t C>
using smat = fcppt::math::matrix::static_<T, R, C>;
template <typename T, std::size_t R, std::size_t C>
using vmat = fcppt::math::matrix::object<T, R, C, view_storage<T, R * C>>;
template <typename T, std::size_t N>
using svec = fcppt::math::vector::static_<T, N>;
template <typename T, std::size_t N>
using vvec = fcppt::math::vector::object<T, N, view_storage<T, N>>;
template <typename T, std::size_t N>
using sdim = fcppt::math::dim::static_<T, N>;
template <typename T, std::size_t N>
using vdim = fcppt::math::dim::object<T, N, view_storage<T, N>>;

// ---------------------------------------------------------------- construction and read back
template <typename T, std::size_t R, std::size_t C, std::size_t... Ci>
auto make_row(Mat<T, R, C> const &a, std::size_t const r, std::index_sequence<Ci...>)
{
  return fcppt::math::matrix::row(a[r * C + Ci]...);
}
template <typename T, std::size_t R, std::size_t C, std::size_t... Ri>
smat<T, R, C> make_smat_impl(Mat<T, R, C> const &a, std::index_sequence<Ri...>)
{
  // documented constructor: R rows made by fcppt::math::matrix::row
  return smat<T, R, C>(make_row<T, R, C>(a, Ri, std::make_index_sequence<C>{})...);
}
template <typename T, std::size_t R, std::size_t C>
smat<T, R, C> make_smat(Mat<T, R, C> const &a)
{
  return make_smat_impl<T, R, C>(a, std::make_index_sequence<R>{});
}
template <typename T, std::size_t N, std::size_t... I>
svec<T, N> make_svec_impl(Vec<T, N> const &a, std::index_sequence<I...>)
{
  return svec<T, N>(a[I]...); // documented: N values of type T
}
template <typename T, std::size_t N>
svec<T, N> make_svec(Vec<T, N> const &a)
{
  return make_svec_impl<T, N>(a, std::make_index_sequence<N>{});
}
template <typename T, std::size_t N, std::size_t... I>
sdim<T, N> make_sdim_impl(Vec<T, N> const &a, std::index_sequence<I...>)
{
  return sdim<T, N>(a[I]...);
}
template <typename T, std::size_t N>
sdim<T, N> make_sdim(Vec<T, N> const &a)
{
  return make_sdim_impl<T, N>(a, std::make_index_sequence<N>{});
}

// read an fcppt object with any storage back into an array, element i = storage()[i]
template <typename O>
auto to_arr(O const &o)
{
  constexpr std::size_t n = O::storage_type::storage_size::value;
  std::array<typename O::value_type, n> r{};
  for (std::size_t i = 0; i < n; ++i) r[i] = o.storage()[i];
  return r;
}

// run f on a matrix holding the data of `a` with the requested storage
template <typename T, std::size_t R, std::size_t C, typename F>
auto with_mat(int const mode, Mat<T, R, C> const &a, F const &f)
{
  if (mode == 0)
  {
    smat<T, R, C> const m(make_smat<T, R, C>(a));
    return f(m);
  }
  else
  {
    Mat<T, R, C> buf = a;
    vmat<T, R, C> const m{view_storage<T, R * C>(buf.data())};
    return f(m);
  }
}
// modes 0, 1 and 2 (row 1 of a 3 x N matrix whose other rows hold sentinel values)
template <typename T, std::size_t N, typename F>
auto with_vec(int const mode, Vec<T, N> const &a, F const &f)
{
  if (mode == 0)
  {
    svec<T, N> const v(make_svec<T, N>(a));
    return f(v);
  }
  else if (mode == 1)
  {
    Vec<T, N> buf = a;
    vvec<T, N> const v{view_storage<T, N>(buf.data())};
    return f(v);
  }
  else
  {
    Mat<T, 3, N> big;
    for (std::size_t i = 0; i < N; ++i)
    {
      big[i] = static_cast<T>(1000 + static_cast<int>(i));
      big[N + i] = a[i];
      big[2 * N + i] = static_cast<T>(-2000 - static_cast<int>(i));
    }
    smat<T, 3, N> const m(make_smat<T, 3, N>(big));
    return f(m.get_unsafe(1));
  }
}
template <typename T, std::size_t N, typename F>
auto with_dim(int const mode, Vec<T, N> const &a, F const &f)
{
  if (mode == 0)
  {
    sdim<T, N> const v(make_sdim<T, N>(a));
    return f(v);
  }
  else
  {
    Vec<T, N> buf = a;
    vdim<T, N> const v{view_storage<T, N>(buf.data())};
    return f(v);
  }
}

// ---------------------------------------------------------------- the naive reference
template <typename T, std::size_t R, std::size_t C>
Mat<T, R, C> r_add(Mat<T, R, C> const &a, Mat<T, R, C> const &b)
{
  Mat<T, R, C> r{};
  for (std::size_t i = 0; i < R * C; ++i) r[i] = a[i] + b[i];
  return r;
}
template <typename T, std::size_t R, std::size_t C>
Mat<T, R, C> r_sub(Mat<T, R, C> const &a, Mat<T, R, C> const &b)
{
  Mat<T, R, C> r{};
  for (std::size_t i = 0; i < R * C; ++i) r[i] = a[i] - b[i];
  return r;
}
template <typename T, std::size_t N>
std::array<T, N> r_scale(std::array<T, N> const &a, T const k)
{
  std::array<T, N> r{};
  for (std::size_t i = 0; i < N; ++i) r[i] = a[i] * k;
  return r;
}
template <typename T, std::size_t R, std::size_t N, std::size_t C>
Mat<T, R, C> r_mul(Mat<T, R, N> const &a, Mat<T, N, C> const &b)
{
  Mat<T, R, C> r{};
  for (std::size_t i = 0; i < R; ++i)
    for (std::size_t j = 0; j < C; ++j)
    {
      T s = 0;
      for (std::size_t k = 0; k < N; ++k) s += a[i * N + k] * b[k * C + j];
      r[i * C + j] = s;
    }
  return r;
}
template <typename T, std::size_t R, std::size_t C>
Mat<T, C, R> r_transpose(Mat<T, R, C> const &a)
{
  Mat<T, C, R> r{};
  for (std::size_t i = 0; i < R; ++i)
    for (std::size_t j = 0; j < C; ++j) r[j * R + i] = a[i * C + j];
  return r;
}
template <typename T, std::size_t R, std::size_t C>
Vec<T, R> r_matvec(Mat<T, R, C> const &a, Vec<T, C> const &v)
{
  Vec<T, R> r{};
  for (std::size_t i = 0; i < R; ++i)
  {
    T s = 0;
    for (std::size_t j = 0; j < C; ++j) s += a[i * C + j] * v[j];
    r[i] = s;
  }
  return r;
}
template <typename T, std::size_t N>
Mat<T, N, N> r_identity()
{
  Mat<T, N, N> r{};
  for (std::size_t i = 0; i < N; ++i) r[i * N + i] = 1;
  return r;
}
// determinant of an n x n matrix given as a flat row-major vector: expansion along the first row
inline long long r_det_dyn(std::vector<long long> const &m, std::size_t const n)
{
  if (n == 0) return 1;
  if (n == 1) return m[0];
  long long s = 0;
  for (std::size_t j = 0; j < n; ++j)
  {
    std::vector<long long> sub;
    sub.reserve((n - 1) * (n - 1));
    for (std::size_t r = 1; r < n; ++r)
      for (std::size_t c = 0; c < n; ++c)
        if (c != j) sub.push_back(m[r * n + c]);
    long long const term = m[j] * r_det_dyn(sub, n - 1);
    s += (j % 2 == 0) ? term : -term;
  }
  return s;
}
template <typename T, std::size_t N>
long long r_det(Mat<T, N, N> const &a)
{
  return r_det_dyn(std::vector<long long>(a.begin(), a.end()), N);
}
// the matrix without row dr and column dc
template <typename T, std::size_t R, std::size_t C>
Mat<T, R - 1, C - 1> r_minor(Mat<T, R, C> const &a, std::size_t const dr, std::size_t const dc)
{
  Mat<T, R - 1, C - 1> r{};
  std::size_t k = 0;
  for (std::size_t i = 0; i < R; ++i)
    for (std::size_t j = 0; j < C; ++j)
      if (i != dr && j != dc) r[k++] = a[i * C + j];
  return r;
}
// adjugate: adj[i][j] = (-1)^(i+j) * det(A without row j and column i)
template <typename T, std::size_t N>
Mat<T, N, N> r_adj(Mat<T, N, N> const &a)
{
  Mat<T, N, N> r{};
  for (std::size_t i = 0; i < N; ++i)
    for (std::size_t j = 0; j < N; ++j)
    {
      long long d = 1;
      if constexpr (N > 1) d = r_det<T, N - 1>(r_minor<T, N, N>(a, j, i));
      r[i * N + j] = static_cast<T>((i + j) % 2 == 0 ? d : -d);
    }
  return r;
}
template <typename T, std::size_t N>
bool is_diagonal(Mat<T, N, N> const &a) // null, identity and every other diagonal matrix
{
  for (std::size_t i = 0; i < N; ++i)
    for (std::size_t j = 0; j < N; ++j)
      if (i != j && a[i * N + j] != 0) return false;
  return true;
}
template <typename T, std::size_t N>
bool is_null_or_unit(Vec<T, N> const &a) // the null vector or a vector of the canonical basis
{
  int ones = 0;
  for (T x : a)
  {
    if (x == 1) ++ones;
    else if (x != 0) return false;
  }
  return ones <= 1;
}

// structure_cast converter that is not a plain conversion: each element must pass through it exactly once
struct times3_conv
{
  template <typename Dest, typename Source>
  static constexpr Dest execute(Source const &s)
  {
    return static_cast<Dest>(s) * 3;
  }
};
}

#endif
