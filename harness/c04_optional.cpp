// VERIF: quick_shards=4
// C04 - fcppt::optional combinators, exhaustive over complete function tables with call counters; the sections
// are in c04_optional_impl.hpp (shared with the heap-payload variant c04_heap_optional.cpp).
#include "c04_optional_impl.hpp"
