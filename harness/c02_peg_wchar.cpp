// VERIF: lib rc quick_shards=1
// C02 - run-time generated grammars vs the PEG reference interpreter, wchar_t instantiation.
#include "c02_peg.hpp"

namespace
{
using namespace verif;
Reg const r_peg{"peg_dynamic_wchar", Kind::random,
                "the reference run rewound after consuming input (a failed alternative / optional / repetition element / lookahead that had consumed >= 1 character), or ran a non-epsilon skipper that consumed input, or propagated a fatal error",
                [] { run_random(*g_cur.sec, {30000, 40}, {120000, 48}); },
                [](Ints const &c) { c02::real<wchar_t>::run_case(c, "wchar_t"); },
                [](Ints const &c) { return c02::describe(c, "wchar_t"); }};
Reg const r_long{"peg_long_inputs_wchar", Kind::exhaustive,
                 "every case (inputs of 0..2000 characters / bracket depth up to 300 / up to 2000 earlier parses through the same parser objects, over grammars with a type-erased rule that fails and is backtracked over)",
                 [] { c02::long_run<wchar_t>("wchar_t"); },
                 [](Ints const &c) { c02::long_one<wchar_t>(c, "wchar_t"); },
                 [](Ints const &c) { return c02::long_describe(c, "wchar_t"); }};
}
