// VERIF: lib rc quick_shards=1
// C03 - parser shapes, part 6 of 8 (see c03_options.hpp).
#include "c03_options.hpp"
namespace
{
using namespace c03;
using S = std::string;
c03::shape_list make_shapes()
{
  c03::shape_list s;
  s.push_back(c03::mk_shape(30, "cmds3(sw; c1: many(arg<str>), c2: prod(sw,arg<int>), x: unit)", cmds3<t1, t2, t3>(sw<la>("f", "ff"), "c1", many(arg<lb, S>("b")), "c2", prod(sw<lc>("o", "oo"), arg<ld, int>("d")), "x", unit<le>())));
  s.push_back(c03::mk_shape(31, "cmds(prod(sw, opt<int> default); c1: optional(arg<str>), c2: arg<int>)", cmds<t1, t2>(prod(sw<la>("f", "ff"), opt<lb, int>("o", "oo", 3)), "c1", optional(arg<lc, S>("c")), "c2", arg<ld, int>("d"))));
  s.push_back(c03::mk_shape(32, "cmds(unit-free: optional(opt<str>); c1: sw, 7: arg<str>)", cmds<t1, t2>(optional(opt<la, S>("o", "oo", std::nullopt)), "c1", sw<lb>("f", "ff"), "7", arg<lc, S>("c"))));
  s.push_back(c03::mk_shape(33, "prod(arg<str>, arg<str>, arg<str>)", prod(arg<la, S>("a"), arg<lb, S>("b"), arg<lc, S>("c"))));
  s.push_back(c03::mk_shape(34, "prod(many(arg<str>), arg<str>)", prod(many(arg<la, S>("a")), arg<lb, S>("b"))));
  return s;
}
}
C03_TU(6, make_shapes)
