// VERIF: rc lib quick_shards=4 fuzz=raw_vector_histories,buffer_histories fuzz_quick=1
// C07 - raw_vector and buffer behave like std::vector for every operation history.
// Stateful model-based test: a history is a vector of 4-word frames (opcode + 3 operands, each
// reduced modulo what is valid in the current state); oracle = std::vector driven by the same
// operations + a tracking allocator (every block freed exactly once with its size) + ASan.
#include "verif.hpp"

#include <fcppt/container/buffer/append_from.hpp>
#include <fcppt/container/buffer/append_from_opt.hpp>
#include <fcppt/container/buffer/object.hpp>
#include <fcppt/container/buffer/read_from.hpp>
#include <fcppt/container/buffer/read_from_opt.hpp>
#include <fcppt/container/buffer/to_raw_vector.hpp>
#include <fcppt/container/raw_vector/comparison.hpp>
#include <fcppt/container/raw_vector/object.hpp>
#include <fcppt/io/read_chars.hpp>
#include <fcppt/optional/object.hpp>

#include <cstdint>
#include <iterator>
#include <list>
#include <map>
#include <new>
#include <sstream>
#include <vector>

using namespace verif;

namespace
{
// ---------------------------------------------------------------- tracking allocator
struct alloc_log
{
  std::map<void *, std::size_t> live;
  std::string error;
  u64 allocations{0};
  bool fail_next{false}; // fault injection: the next allocate() throws std::bad_alloc
};
alloc_log &alog()
{
  static alloc_log l;
  return l;
}
template <typename T>
struct track_alloc
{
  using value_type = T;
  track_alloc() = default;
  template <typename U>
  track_alloc(track_alloc<U> const &) {}
  T *allocate(std::size_t n)
  {
    if (alog().fail_next)
    {
      alog().fail_next = false;
      throw std::bad_alloc();
    }
    void *p = ::operator new(n * sizeof(T) + (n == 0 ? 1 : 0));
    alog().live[p] = n;
    ++alog().allocations;
    return static_cast<T *>(p);
  }
  void deallocate(T *p, std::size_t n)
  {
    auto it = alog().live.find(p);
    if (it == alog().live.end())
    {
      if (alog().error.empty()) alog().error = "deallocate of a block that is not live (double free or foreign pointer)";
      return; // do not free: keep the process alive so that the case is reported, not crashed
    }
    if (it->second != n && alog().error.empty())
      alog().error = "deallocate(p," + std::to_string(n) + ") of a block allocated with size " + std::to_string(it->second);
    alog().live.erase(it);
    ::operator delete(p);
  }
  friend bool operator==(track_alloc const &, track_alloc const &) { return true; }
  friend bool operator!=(track_alloc const &, track_alloc const &) { return false; }
};

struct triple
{
  int a, b, c;
};
bool operator==(triple const &x, triple const &y) { return x.a == y.a && x.b == y.b && x.c == y.c; }
bool operator<(triple const &x, triple const &y) { return std::tie(x.a, x.b, x.c) < std::tie(y.a, y.b, y.c); }

template <typename T>
T mk(u64 v);
template <>
int mk<int>(u64 v) { return static_cast<int>(v % 1000); }
template <>
triple mk<triple>(u64 v) { return triple{static_cast<int>(v % 1000), static_cast<int>(v % 7), -static_cast<int>(v % 13)}; }
std::string show(int v) { return std::to_string(v); }
std::string show(triple const &v) { return "(" + std::to_string(v.a) + "," + std::to_string(v.b) + "," + std::to_string(v.c) + ")"; }

// single-pass input iterator over a vector
template <typename T>
struct input_it
{
  using iterator_category = std::input_iterator_tag;
  using value_type = T;
  using difference_type = std::ptrdiff_t;
  using pointer = T const *;
  using reference = T const &;
  std::vector<T> const *v;
  std::size_t i;
  reference operator*() const { return (*v)[i]; }
  input_it &operator++() { ++i; return *this; }
  input_it operator++(int) { input_it t = *this; ++i; return t; }
  friend bool operator==(input_it const &a, input_it const &b) { return a.i == b.i; }
  friend bool operator!=(input_it const &a, input_it const &b) { return a.i != b.i; }
};

char const *const op_names[] = {"push_back", "pop_back", "insert", "insert_n", "insert_fwd", "insert_input", "erase", "erase_range",
                                "resize", "reserve", "shrink_to_fit", "clear", "swap", "move_construct", "move_assign", "read",
                                "reconstruct", "push_back_alias", "insert_alias", "insert_n_alias", "resize_alias", "insert_list"};
constexpr unsigned n_ops = 22;

template <typename T>
struct machine
{
  using rv = fcppt::container::raw_vector::object<T, track_alloc<T>>;
  using model = std::vector<T>;

  // flags for the non-trivial rule
  bool inplace_insert{false}, realloc_insert{false}, aliased{false}, special_state{false}, alloc_failed{false};

  template <typename V>
  static std::string dump(V const &v)
  {
    std::string r = "[";
    for (auto const &x : v) r += show(x) + " ";
    return r + "]";
  }

  bool same(rv &v, model const &m, char const *which, char const *after)
  {
    std::string const ctx = std::string(" (") + which + " after " + after + ")";
    if (v.size() != m.size())
    {
      fail(std::string("raw_vector|") + after + "|size", "size " + std::to_string(v.size()) + " != model " + std::to_string(m.size()) + ctx);
      return false;
    }
    if (v.capacity() < v.size())
    {
      fail(std::string("raw_vector|") + after + "|capacity<size", "capacity " + std::to_string(v.capacity()) + " < size " + std::to_string(v.size()) + ctx);
      return false;
    }
    if (v.empty() != m.empty() || v.data_end() != v.data() + v.size() || v.end() - v.begin() != static_cast<std::ptrdiff_t>(m.size()))
    {
      fail(std::string("raw_vector|") + after + "|pointers", "empty()/data_end()/begin()/end() inconsistent" + ctx);
      return false;
    }
    for (std::size_t i = 0; i < m.size(); ++i)
      if (!(v[i] == m[i]))
      {
        fail(std::string("raw_vector|") + after + "|contents", "element " + std::to_string(i) + " is " + show(v[i]) + ", model has " + dump(m) + ctx);
        return false;
      }
    rv const &cv = v;
    if (!m.empty() && (!(cv.front() == m.front()) || !(cv.back() == m.back()) || !(*cv.begin() == m.front()) || cv.data_end() != cv.data() + m.size()))
    {
      fail(std::string("raw_vector|") + after + "|const-access", "front()/back() const disagree" + ctx);
      return false;
    }
    return true;
  }

  // re-read an unspecified-but-valid (moved-from) vector into its model
  bool reread(rv &v, model &m, char const *after)
  {
    if (v.capacity() < v.size() || v.data_end() != v.data() + v.size())
    {
      fail(std::string("raw_vector|") + after + "|moved-from-invalid", "moved-from vector is not in a valid state");
      return false;
    }
    m.assign(v.begin(), v.end());
    return true;
  }

  static rv construct(Choices &c, model &m, bool &ok)
  {
    unsigned const kind = static_cast<unsigned>(c.range(0, 5));
    std::size_t const n = static_cast<std::size_t>(c.range(0, 9));
    u64 const seed = c.raw();
    c.skip_to_frame();
    model src;
    for (std::size_t i = 0; i < n; ++i) src.push_back(mk<T>(seed + i * 31));
    ok = true;
    switch (kind)
    {
    case 0: m.clear(); return rv{};
    case 1: m.assign(n, mk<T>(seed)); return rv(n, mk<T>(seed));
    case 2: m = src; return rv(src.begin(), src.end());
    case 3: m = src; return rv(input_it<T>{&src, 0}, input_it<T>{&src, src.size()});
    case 4:
    {
      T const a = mk<T>(seed), b = mk<T>(seed + 1), d = mk<T>(seed + 2);
      m = model{a, b, d};
      return rv{a, b, d};
    }
    default:
    {
      std::list<T> l(src.begin(), src.end());
      m = src;
      return rv(l.begin(), l.end());
    }
    }
  }

  void run(Choices &c, std::size_t nframes)
  {
    alog().live.clear();
    alog().error.clear();
    alog().fail_next = false;
    {
      model m1, m2;
      bool ok = true;
      rv v1 = construct(c, m1, ok);
      rv v2{};
      if (!same(v1, m1, "v1", "construct")) return;
      for (std::size_t f = 1; f < nframes; ++f)
      {
        unsigned const op = static_cast<unsigned>(c.range(0, n_ops - 1));
        u64 const x = c.raw(), y = c.raw(), z = c.raw();
        c.skip_to_frame();
        char const *const name = op_names[op];
        std::size_t const sz = m1.size();
        std::size_t const pos = static_cast<std::size_t>(x % (sz + 1));
        T const val = mk<T>(y);
        bool const had_room = v1.capacity() > v1.size();
        if (v1.size() == 0 && v1.capacity() > 0) special_state = true;
        switch (op)
        {
        case 0: v1.push_back(val); m1.push_back(val); break;
        case 1:
          if (sz == 0) break;
          v1.pop_back(); m1.pop_back(); break;
        case 2:
        {
          auto const it = v1.insert(v1.begin() + pos, val);
          auto const mit = m1.insert(m1.begin() + static_cast<std::ptrdiff_t>(pos), val);
          (had_room ? inplace_insert : realloc_insert) = true;
          if (it - v1.begin() != mit - m1.begin())
            fail("raw_vector|insert|returned-iterator", "insert(pos " + std::to_string(pos) + ") returned offset " + std::to_string(it - v1.begin()) + ", std::vector returns " + std::to_string(mit - m1.begin()));
          break;
        }
        case 3:
        {
          std::size_t const n = static_cast<std::size_t>(z % 6);
          (v1.capacity() >= v1.size() + n ? inplace_insert : realloc_insert) = true;
          v1.insert(v1.begin() + pos, n, val);
          m1.insert(m1.begin() + static_cast<std::ptrdiff_t>(pos), n, val);
          break;
        }
        case 4:
        case 5:
        case 21:
        {
          std::size_t const n = static_cast<std::size_t>(z % 7);
          model src;
          for (std::size_t i = 0; i < n; ++i) src.push_back(mk<T>(y + i * 17));
          (v1.capacity() >= v1.size() + n ? inplace_insert : realloc_insert) = true;
          if (op == 4) v1.insert(v1.begin() + pos, src.begin(), src.end());
          else if (op == 5) v1.insert(v1.begin() + pos, input_it<T>{&src, 0}, input_it<T>{&src, src.size()});
          else
          {
            std::list<T> l(src.begin(), src.end());
            v1.insert(v1.begin() + pos, l.begin(), l.end());
          }
          m1.insert(m1.begin() + static_cast<std::ptrdiff_t>(pos), src.begin(), src.end());
          break;
        }
        case 6:
        {
          if (sz == 0) break;
          std::size_t const p = static_cast<std::size_t>(x % sz);
          auto const it = v1.erase(v1.begin() + p);
          auto const mit = m1.erase(m1.begin() + static_cast<std::ptrdiff_t>(p));
          if (it - v1.begin() != mit - m1.begin())
            fail("raw_vector|erase|returned-iterator", "erase(pos " + std::to_string(p) + ") returned offset " + std::to_string(it - v1.begin()) + ", std::vector returns " + std::to_string(mit - m1.begin()));
          break;
        }
        case 7:
        {
          std::size_t const a = pos, b = a + static_cast<std::size_t>(y % (sz - a + 1));
          if (a != b && known("raw_vector|erase-range|returned-iterator")) break;
          auto const it = v1.erase(v1.begin() + a, v1.begin() + b);
          auto const mit = m1.erase(m1.begin() + static_cast<std::ptrdiff_t>(a), m1.begin() + static_cast<std::ptrdiff_t>(b));
          if (it - v1.begin() != mit - m1.begin())
            fail("raw_vector|erase-range|returned-iterator", "erase(" + std::to_string(a) + "," + std::to_string(b) + ") on size " + std::to_string(sz) + " returned offset " + std::to_string(it - v1.begin()) + ", std::vector returns " + std::to_string(mit - m1.begin()));
          break;
        }
        case 8:
        {
          std::size_t const n = static_cast<std::size_t>(x % (sz + 7));
          v1.resize(n, val); m1.resize(n, val); break;
        }
        // reserve / shrink_to_fit: one call in four runs with an allocator whose next allocation
        // fails. std::vector's reserve/shrink_to_fit have no effect when the allocation throws, so
        // the model is left alone; what the property demands is that the raw_vector still owns
        // exactly the blocks it refers to (no double free, no use of a freed block later on).
        case 9:
        case 10:
        {
          bool const inject = y % 4 == 0;
          alog().fail_next = inject;
          try
          {
            if (op == 9) v1.reserve(static_cast<std::size_t>(x % 41));
            else v1.shrink_to_fit();
          }
          catch (std::bad_alloc const &)
          {
            if (!inject) throw;
            alloc_failed = true;
          }
          alog().fail_next = false;
          if (op == 9) m1.reserve(static_cast<std::size_t>(x % 41));
          break;
        }
        case 11: v1.clear(); m1.clear(); break;
        case 12:
          if (x & 1U) v1.swap(v2); else swap(v1, v2);
          m1.swap(m2);
          break;
        case 13:
        {
          rv tmp(std::move(v1));
          special_state = true;
          if (!same(tmp, m1, "move-constructed copy", name)) return;
          model mt = m1;
          if (!reread(v1, m1, name)) return;
          if (x & 1U)
          {
            // use the moved-from vector, then move back
            v1.push_back(val); m1.push_back(val);
            if (!same(v1, m1, "moved-from v1", "push_back-on-moved-from")) return;
          }
          v1 = std::move(tmp);
          // now v1 must hold mt; tmp is unspecified-but-valid and destroyed here
          model dummy;
          if (!reread(tmp, dummy, "move_assign")) return;
          m1 = mt;
          break;
        }
        case 14:
        {
          model const old2 = m2;
          v1 = std::move(v2);
          special_state = true;
          m1 = old2;
          if (!reread(v2, m2, name)) return;
          break;
        }
        case 15:
        {
          if (sz != 0)
          {
            std::size_t const p = static_cast<std::size_t>(x % sz);
            if (!(v1[p] == m1[p]) || !(v1.front() == m1.front()) || !(v1.back() == m1.back()))
              fail("raw_vector|read|value", "operator[]/front/back disagree with the model at " + std::to_string(p));
            // write through a reference
            v1[p] = val; m1[p] = val;
          }
          bool const eq = v1 == v2, lt = v1 < v2;
          if (eq != (m1 == m2) || lt != (m1 < m2) || (v1 != v2) != (m1 != m2) || (v1 > v2) != (m1 > m2) || (v1 <= v2) != (m1 <= m2) || (v1 >= v2) != (m1 >= m2))
            fail("raw_vector|comparison|value", "comparison of " + dump(m1) + " and " + dump(m2) + " disagrees with std::vector");
          break;
        }
        case 16:
        {
          // rebuild v2 from a constructor (frame operands are re-read through a sub-cursor)
          Ints sub{static_cast<i64>(x), static_cast<i64>(y), static_cast<i64>(z), 0};
          Choices sc(sub);
          bool ok2 = true;
          v2 = construct(sc, m2, ok2);
          break;
        }
        case 17:
          if (sz == 0) break;
          aliased = true;
          v1.push_back(v1[x % sz]); m1.push_back(T(m1[x % sz])); break;
        case 18:
        {
          if (sz == 0) break;
          std::size_t const k = static_cast<std::size_t>(y % sz);
          bool const inplace = had_room;
          if (inplace && k >= pos && known("raw_vector|insert|aliased-value-in-place")) break;
          aliased = true;
          (inplace ? inplace_insert : realloc_insert) = true;
          T const expect = m1[k];
          v1.insert(v1.begin() + pos, v1[k]);
          m1.insert(m1.begin() + static_cast<std::ptrdiff_t>(pos), expect);
          if (!(v1[pos] == expect))
            fail(std::string("raw_vector|insert|aliased-value") + (inplace ? "-in-place" : "-reallocating"),
                 "insert(pos " + std::to_string(pos) + ", v[" + std::to_string(k) + "]) inserted " + show(v1[pos]) + " instead of " + show(expect));
          break;
        }
        case 19:
        {
          if (sz == 0) break;
          std::size_t const k = static_cast<std::size_t>(y % sz);
          std::size_t const n = static_cast<std::size_t>(z % 5);
          bool const inplace = v1.capacity() >= v1.size() + n;
          if (inplace && n > 0 && k >= pos && known("raw_vector|insert-n|aliased-value-in-place")) break;
          aliased = true;
          T const expect = m1[k];
          v1.insert(v1.begin() + pos, n, v1[k]);
          m1.insert(m1.begin() + static_cast<std::ptrdiff_t>(pos), n, expect);
          if (n > 0 && !(v1[pos] == expect))
            fail(std::string("raw_vector|insert-n|aliased-value") + (inplace ? "-in-place" : "-reallocating"),
                 "insert(pos " + std::to_string(pos) + ", " + std::to_string(n) + ", v[" + std::to_string(k) + "]) inserted " + show(v1[pos]) + " instead of " + show(expect));
          break;
        }
        case 20:
        {
          if (sz == 0) break;
          std::size_t const n = static_cast<std::size_t>(x % (sz + 7));
          T const expect = m1[y % sz];
          aliased = true;
          v1.resize(n, v1[y % sz]); m1.resize(n, expect); break;
        }
        default: break;
        }
        if (failed_in_current_case()) return;
        if (!same(v1, m1, "v1", name) || !same(v2, m2, "v2", name)) return;
        if (!alog().error.empty())
        {
          fail(std::string("raw_vector|") + name + "|allocator", alog().error);
          return;
        }
      }
    }
    if (!alog().error.empty()) fail("raw_vector|destruction|allocator", alog().error);
    else if (!alog().live.empty())
      fail("raw_vector|destruction|leak", std::to_string(alog().live.size()) + " block(s) still allocated after every vector was destroyed");
  }
};

template <typename T>
void rv_case_t(Choices &c, std::size_t nframes)
{
  machine<T> m;
  m.run(c, nframes);
  count((m.inplace_insert && m.realloc_insert) || m.aliased || m.special_state);
  if (m.aliased) cls("aliased-insert");
  if (m.inplace_insert && m.realloc_insert) cls("in-place+reallocating");
  if (m.special_state) cls("empty-with-capacity-or-moved-from");
  if (m.alloc_failed) cls("allocation-failure-injected-in-reserve-or-shrink");
}
void rv_case(Ints const &c)
{
  Choices ch(c);
  bool const tri = ch.flag();
  ch.skip_to_frame();
  std::size_t const nframes = c.size() / 4 > 0 ? c.size() / 4 - 1 : 0;
  if (nframes == 0) { count(false); return; }
  if (tri) rv_case_t<triple>(ch, nframes); else rv_case_t<int>(ch, nframes);
}
std::string rv_describe(Ints const &c)
{
  Choices ch(c);
  bool const tri = ch.flag();
  ch.skip_to_frame();
  std::size_t const nframes = c.size() / 4 > 0 ? c.size() / 4 - 1 : 0;
  std::string r = std::string("raw_vector<") + (tri ? "triple" : "int") + ">: ";
  if (nframes == 0) return r + "(empty)";
  static char const *const ctor[] = {"default", "n-copies", "forward-range", "input-range", "init-list", "list-range"};
  unsigned const kind = static_cast<unsigned>(ch.range(0, 5));
  std::size_t const n = static_cast<std::size_t>(ch.range(0, 9));
  ch.skip_to_frame();
  r += std::string("ctor(") + ctor[kind] + "," + std::to_string(n) + ")";
  for (std::size_t f = 1; f < nframes && f < 70; ++f)
  {
    unsigned const op = static_cast<unsigned>(ch.range(0, n_ops - 1));
    u64 const x = ch.raw(), y = ch.raw(), z = ch.raw();
    ch.skip_to_frame();
    r += std::string(" ") + op_names[op] + "(" + std::to_string(x % 1000) + "," + std::to_string(y % 1000) + "," + std::to_string(z % 1000) + ")";
  }
  return r;
}
Reg const r_rv{"raw_vector_histories", Kind::random,
               "history contains an in-place and a reallocating insert, or an insert whose value aliases an element, or an operation on a vector that is empty with non-zero capacity or moved-from",
               [] { run_random(*g_cur.sec, {12000, 32}, {50000, 62}); }, rv_case, rv_describe};

// ---------------------------------------------------------------- buffer histories
char const *const buf_ops[] = {"resize_write_area", "write+written", "append_from", "append_from_opt", "move_construct", "move_assign", "swap", "read", "append_from_opt_fail"};
constexpr unsigned n_buf_ops = 9;

void buf_case(Ints const &ci)
{
  using T = int;
  using buf = fcppt::container::buffer::object<T, track_alloc<T>>;
  using rv = fcppt::container::raw_vector::object<T, track_alloc<T>>;
  Choices c(ci);
  alog().live.clear();
  alog().error.clear();
  std::size_t const nframes = ci.size() / 4;
  bool grew = false, moved = false;
  {
    std::size_t const init = static_cast<std::size_t>(c.range(0, 8));
    bool const via_read_from = c.flag();
    c.skip_to_frame();
    std::vector<T> m;       // read area
    std::size_t w = init;   // write size
    buf b = via_read_from ? fcppt::container::buffer::read_from<buf>(init, [](T *, std::size_t) { return std::size_t{0}; }) : buf{init};
    buf b2{0U};
    std::vector<T> m2;
    std::size_t w2 = 0;
    auto check = [&](buf &bb, std::vector<T> const &mm, std::size_t ww, char const *after) -> bool {
      if (bb.read_size() != mm.size() || bb.write_size() != ww)
      {
        fail(std::string("buffer|") + after + "|sizes", "read_size " + std::to_string(bb.read_size()) + "/write_size " + std::to_string(bb.write_size()) + ", expected " + std::to_string(mm.size()) + "/" + std::to_string(ww));
        return false;
      }
      if (bb.read_data_end() != bb.read_data() + mm.size() || bb.write_data() != bb.read_data_end() || bb.write_data_end() != bb.write_data() + ww || bb.end() - bb.begin() != static_cast<std::ptrdiff_t>(mm.size()))
      {
        fail(std::string("buffer|") + after + "|pointers", "read/write area pointers inconsistent");
        return false;
      }
      for (std::size_t i = 0; i < mm.size(); ++i)
        if (bb[i] != mm[i] || bb.read_data()[i] != mm[i])
        {
          fail(std::string("buffer|") + after + "|contents", "read area element " + std::to_string(i) + " is " + std::to_string(bb[i]) + ", expected " + std::to_string(mm[i]));
          return false;
        }
      return true;
    };
    if (!check(b, m, w, "construct")) return;
    int next = 1;
    for (std::size_t f = 1; f < nframes; ++f)
    {
      unsigned const op = static_cast<unsigned>(c.range(0, n_buf_ops - 1));
      u64 const x = c.raw(), y = c.raw();
      c.skip_to_frame();
      char const *const name = buf_ops[op];
      switch (op)
      {
      case 0:
      {
        std::size_t const n = static_cast<std::size_t>(x % 20);
        b.resize_write_area(n);
        w = n;
        grew = true;
        break;
      }
      case 1:
      {
        std::size_t const k = static_cast<std::size_t>(x % (w + 1));
        for (std::size_t i = 0; i < k; ++i) { b.write_data()[i] = next; m.push_back(next); ++next; }
        b.written(k);
        w -= k;
        break;
      }
      case 2:
      {
        std::size_t const n = static_cast<std::size_t>(x % 20), k = static_cast<std::size_t>(y % (n + 1));
        std::vector<T> add;
        for (std::size_t i = 0; i < k; ++i) add.push_back(next++);
        b = fcppt::container::buffer::append_from(std::move(b), n, [&](T *p, std::size_t sz) {
          if (sz != n) fail("buffer|append_from|size-argument", "function called with size " + std::to_string(sz) + " instead of " + std::to_string(n));
          for (std::size_t i = 0; i < k; ++i) p[i] = add[i];
          return k;
        });
        m.insert(m.end(), add.begin(), add.end());
        w = n - k;
        grew = true;
        break;
      }
      case 3:
      case 8:
      {
        std::size_t const n = static_cast<std::size_t>(x % 20), k = static_cast<std::size_t>(y % (n + 1));
        bool const fails = op == 8;
        std::vector<T> add;
        for (std::size_t i = 0; i < k; ++i) add.push_back(next++);
        auto r = fcppt::container::buffer::append_from_opt(std::move(b), n, [&](T *p, std::size_t) {
          for (std::size_t i = 0; i < k; ++i) p[i] = add[i];
          return fails ? fcppt::optional::object<std::size_t>{} : fcppt::optional::object<std::size_t>{k};
        });
        if (r.has_value() == fails)
        {
          fail("buffer|append_from_opt|presence", fails ? "a value although the function failed" : "nothing although the function succeeded");
          return;
        }
        if (!fails)
        {
          b = std::move(r.get_unsafe());
          m.insert(m.end(), add.begin(), add.end());
          w = n - k;
        }
        else
        {
          // Reading: on failure the buffer is left in the caller's object with a write area of n
          w = n;
        }
        grew = true;
        break;
      }
      case 4:
      {
        buf t(std::move(b));
        moved = true;
        if (!check(t, m, w, "move_construct")) return;
        // moved-from buffer must be empty and safe to use/assign
        if (b.read_size() != 0 || b.write_size() != 0) { fail("buffer|move_construct|moved-from-not-empty", "moved-from buffer still reports a read or write area"); return; }
        b = std::move(t);
        break;
      }
      case 5:
      {
        b2 = std::move(b);
        moved = true;
        // b now holds what b2 held (unspecified but valid): re-read
        std::vector<T> const om = m; std::size_t const ow = w;
        m.assign(b.begin(), b.end()); w = b.write_size();
        m2 = om; w2 = ow;
        break;
      }
      case 6:
        if (x & 1U) b.swap(b2); else swap(b, b2);
        std::swap(m, m2); std::swap(w, w2);
        break;
      default:
        break;
      }
      if (failed_in_current_case()) return;
      if (!check(b, m, w, name) || !check(b2, m2, w2, name)) return;
      if (!alog().error.empty()) { fail(std::string("buffer|") + name + "|allocator", alog().error); return; }
    }
    // hand the read area over
    rv v = fcppt::container::buffer::to_raw_vector(std::move(b));
    if (v.size() != m.size() || v.capacity() < v.size() || !std::equal(m.begin(), m.end(), v.begin()))
    {
      fail("buffer|to_raw_vector|contents", "to_raw_vector yields size " + std::to_string(v.size()) + ", expected the read area of size " + std::to_string(m.size()));
      return;
    }
    if (b.read_size() != 0 || b.write_size() != 0) fail("buffer|to_raw_vector|source-not-released", "buffer still reports data after to_raw_vector");
    // the vector must be a fully functional owner of the storage
    for (int i = 0; i < 5; ++i) { v.push_back(1000 + i); m.push_back(1000 + i); }
    if (v.size() != m.size() || !std::equal(m.begin(), m.end(), v.begin())) fail("buffer|to_raw_vector|push_back-after", "vector obtained from a buffer misbehaves on push_back");
    v.shrink_to_fit();
    if (v.size() != m.size() || !std::equal(m.begin(), m.end(), v.begin())) fail("buffer|to_raw_vector|shrink-after", "vector obtained from a buffer misbehaves on shrink_to_fit");
  }
  count(grew && (moved || nframes > 3));
  if (!alog().error.empty()) fail("buffer|destruction|allocator", alog().error);
  else if (!alog().live.empty()) fail("buffer|destruction|leak", std::to_string(alog().live.size()) + " block(s) still allocated after buffer and vector were destroyed");
}
std::string buf_describe(Ints const &ci)
{
  Choices c(ci);
  std::size_t const nframes = ci.size() / 4;
  std::string r = "buffer: ctor(" + std::to_string(c.range(0, 8)) + (c.flag() ? ",read_from)" : ")");
  c.skip_to_frame();
  for (std::size_t f = 1; f < nframes && f < 70; ++f)
  {
    unsigned const op = static_cast<unsigned>(c.range(0, n_buf_ops - 1));
    u64 const x = c.raw(), y = c.raw();
    c.skip_to_frame();
    r += std::string(" ") + buf_ops[op] + "(" + std::to_string(x % 20) + "," + std::to_string(y % 1000) + ")";
  }
  return r + " to_raw_vector";
}
Reg const r_buf{"buffer_histories", Kind::random, "the write area was grown at least once and the buffer was moved or the history has more than three operations",
                [] { run_random(*g_cur.sec, {8000, 24}, {40000, 50}); }, buf_case, buf_describe};

// ---------------------------------------------------------------- io::read_chars (buffer -> raw_vector through the library)
Reg const r_read_chars{"io_read_chars", Kind::exhaustive, "count is 0, equals or exceeds the stream length, or the stream starts at a non-zero offset",
                       [] {
                         for (i64 len = 0; len <= 9; ++len)
                           for (i64 off = 0; off <= len; ++off)
                             for (i64 cnt = 0; cnt <= 12; ++cnt)
                             {
                               cur3(len, off, cnt);
                               g_cur.sec->one({len, off, cnt});
                             }
                       },
                       [](Ints const &c) {
                         std::size_t const len = static_cast<std::size_t>(c.at(0) % 10), off = static_cast<std::size_t>(c.at(1)) % (len + 1), cnt = static_cast<std::size_t>(c.at(2) % 13);
                         std::string text;
                         for (std::size_t i = 0; i < len; ++i) text.push_back(static_cast<char>('a' + i));
                         std::istringstream s(text);
                         for (std::size_t i = 0; i < off; ++i) s.get();
                         count(cnt == 0 || cnt >= len - off || off != 0);
                         auto const r = fcppt::io::read_chars(s, cnt);
                         bool const enough = cnt <= len - off;
                         if (r.has_value() != enough)
                         {
                           fail("io::read_chars|presence", "read_chars(" + std::to_string(cnt) + ") on " + std::to_string(len - off) + " remaining chars: " + (enough ? "nothing" : "a value"));
                           return;
                         }
                         if (enough)
                         {
                           auto const &v = r.get_unsafe();
                           if (v.size() != cnt || !std::equal(v.begin(), v.end(), text.begin() + static_cast<std::ptrdiff_t>(off)))
                             fail("io::read_chars|contents", "read_chars returned " + std::to_string(v.size()) + " chars, wrong size or contents");
                         }
                       }};

// ---- ranges whose ELEMENT TYPE differs from the vector's (short[], std::string, float array into
// raw_vector<int>): like std::vector, construction and insertion convert element by element
void converting_range_case(std::size_t n, std::size_t pos_, std::size_t kind, bool spare)
{
  using rvi = fcppt::container::raw_vector::object<int>;
  count(n >= 1);
  std::vector<short> const shorts = [&] { std::vector<short> r; for (std::size_t i = 0; i < n; ++i) r.push_back(static_cast<short>(1000 + 7 * static_cast<int>(i))); return r; }();
  std::string const chars = std::string("Zebra!").substr(0, n);
  std::vector<double> const doubles = [&] { std::vector<double> r; for (std::size_t i = 0; i < n; ++i) r.push_back(2.5 + static_cast<double>(i)); return r; }();
  auto const run = [&](auto const &src, char const *what) {
    std::vector<int> model{1, 2, 3};
    rvi v{1, 2, 3};
    if (spare) { v.reserve(32); }
    std::size_t const pos = pos_ % 4;
    model.insert(model.begin() + static_cast<std::ptrdiff_t>(pos), src.begin(), src.end());
    v.insert(v.begin() + static_cast<std::ptrdiff_t>(pos), src.begin(), src.end());
    if (v.size() != model.size() || !std::equal(v.begin(), v.end(), model.begin()))
      fail(std::string("raw_vector|insert-range|source-of-another-element-type|") + what, std::string("inserting ") + std::to_string(src.size()) + " elements of a " + what + " range at position " + std::to_string(pos) + " into raw_vector<int>{1,2,3}" + (spare ? " (spare capacity)" : "") + " differs from std::vector<int>");
    std::vector<int> const cm(src.begin(), src.end());
    rvi const cv(src.begin(), src.end());
    if (cv.size() != cm.size() || !std::equal(cv.begin(), cv.end(), cm.begin()))
      fail(std::string("raw_vector|range-constructor|source-of-another-element-type|") + what, std::string("raw_vector<int> constructed from ") + std::to_string(src.size()) + " elements of a " + what + " range differs from std::vector<int>");
  };
  if (kind % 3 == 0) run(shorts, "short");
  else if (kind % 3 == 1) run(chars, "char");
  else run(doubles, "double");
}
Reg const r_conv_range{"raw_vector_converting_ranges", Kind::exhaustive, "a non-empty source range",
                       [] { for (i64 n = 0; n <= 6; ++n) for (i64 p = 0; p < 4; ++p) for (i64 k = 0; k < 3; ++k) for (i64 sp = 0; sp < 2; ++sp) { cur4(n, p, k, sp); converting_range_case(static_cast<std::size_t>(n), static_cast<std::size_t>(p), static_cast<std::size_t>(k), sp != 0); } },
                       [](Ints const &c) { converting_range_case(static_cast<std::size_t>(static_cast<u64>(c.at(0)) % 7), static_cast<std::size_t>(static_cast<u64>(c.at(1)) % 4), static_cast<std::size_t>(static_cast<u64>(c.at(2)) % 3), c.at(3) % 2 != 0); },
                       [](Ints const &c) { static char const *const k[] = {"short", "char", "double"}; return "raw_vector<int>{1,2,3}: insert at " + std::to_string(static_cast<u64>(c.at(1)) % 4) + " / construct from " + std::to_string(static_cast<u64>(c.at(0)) % 7) + " elements of a contiguous " + k[static_cast<u64>(c.at(2)) % 3] + " range" + (c.at(3) % 2 != 0 ? " (spare capacity)" : ""); }};
}
