// VERIF: lib rc quick_shards=1
// C03 - parser shapes, part 3 of 8 (see c03_options.hpp).
#include "c03_options.hpp"
namespace
{
using namespace c03;
using S = std::string;
c03::shape_list make_shapes()
{
  c03::shape_list s;
  s.push_back(c03::mk_shape(15, "flag<str>", flag<la, S>("f", "ff", S("on"), S("off"))));
  s.push_back(c03::mk_shape(16, "prod(flag<color>, arg<color>)", prod(flag<la, color>("f", "ff", color::green, color::red), arg<lb, color>("b"))));
  s.push_back(c03::mk_shape(17, "prod(opt<color> default, many(arg<unsigned>))", prod(opt<la, color>("o", "oo", color::blue), many(arg<lb, unsigned>("b")))));
  s.push_back(c03::mk_shape(18, "prod(arg<unsigned>, opt<unsigned>)", prod(arg<la, unsigned>("a"), opt<lb, unsigned>("o", "oo", std::nullopt))));
  s.push_back(c03::mk_shape(19, "unit", unit<la>()));
  return s;
}
}
C03_TU(3, make_shapes)
