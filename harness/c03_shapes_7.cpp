// VERIF: lib rc quick_shards=1
// C03 - parser shapes, part 7 of 8 (see c03_options.hpp).
#include "c03_options.hpp"
namespace
{
using namespace c03;
using S = std::string;
c03::shape_list make_shapes()
{
  c03::shape_list s;
  s.push_back(c03::mk_shape(35, "many(prod(opt<int>, arg<str>))", many(prod(opt<la, int>("o", "oo", std::nullopt), arg<lb, S>("b")))));
  s.push_back(c03::mk_shape(36, "optional(prod(arg<str>, opt<str>))", optional(prod(arg<la, S>("a"), opt<lb, S>("o", "oo", std::nullopt)))));
  s.push_back(c03::mk_shape(37, "prod(optional(prod(sw, arg<int>)), many(arg<str>))", prod(optional(prod(usw<la>("f", "ff"), arg<lb, int>("b"))), many(arg<lc, S>("c")))));
  s.push_back(c03::mk_shape(38, "many(prod(usw, arg<str>))", many(prod(usw<la>("f", "ff"), arg<lb, S>("b")))));
  s.push_back(c03::mk_shape(39, "prod(opt<str>, opt<str> default, flag<str>)", prod(opt<la, S>("o", "oo", std::nullopt), opt<lb, S>("", "zz", S("dz")), flag<lc, S>("f", "ff", S("A"), S("I")))));
  return s;
}
}
C03_TU(7, make_shapes)
