// VERIF: lib rc quick_shards=1
// C03 - parser shapes, part 4 of 8 (see c03_options.hpp).
#include "c03_options.hpp"
namespace
{
using namespace c03;
using S = std::string;
c03::shape_list make_shapes()
{
  c03::shape_list s;
  s.push_back(c03::mk_shape(20, "prod(unit-like: usw, sw)", prod(usw<la>("f", "ff"), sw<lb>("", "zz"))));
  s.push_back(c03::mk_shape(21, "optional(opt<int>)", optional(opt<la, int>("o", "oo", std::nullopt))));
  s.push_back(c03::mk_shape(22, "many(opt<str>)", many(opt<la, S>("o", "oo", std::nullopt))));
  s.push_back(c03::mk_shape(23, "many(sw)-free: prod(sw, sw)", prod(sw<la>("f", "ff"), sw<lb>("o", "oo"))));
  s.push_back(c03::mk_shape(24, "optional(many(arg<int>))", optional(many(arg<la, int>("a")))));
  return s;
}
}
C03_TU(4, make_shapes)
