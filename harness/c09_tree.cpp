// VERIF: rc quick_shards=4 fuzz=tree_histories
// C09 - tree keeps parent/child links consistent under every operation history.
// Stateful model-based test over a forest of heap-allocated roots; operands are chosen among ALL
// current nodes (addressed by root index + pre-order index). Oracle: a plain recursive model and a
// full structural walk (values, shape, every child's parent()) after every step.
#include "verif.hpp"

#include <fcppt/make_cref.hpp>
#include <fcppt/container/tree/child_position.hpp>
#include <fcppt/container/tree/comparison.hpp>
#include <fcppt/container/tree/depth.hpp>
#include <fcppt/container/tree/level.hpp>
#include <fcppt/container/tree/make_pre_order.hpp>
#include <fcppt/container/tree/make_to_root.hpp>
#include <fcppt/container/tree/map.hpp>
#include <fcppt/container/tree/object.hpp>
#include <fcppt/container/tree/pre_order.hpp>
#include <fcppt/container/tree/to_root.hpp>
#include <fcppt/optional/object.hpp>
#include <fcppt/optional/reference.hpp>

#include <algorithm>
#include <memory>
#include <vector>

using namespace verif;

namespace
{
using tree = fcppt::container::tree::object<int>;
using ltree = fcppt::container::tree::object<long>;

struct M
{
  int v;
  std::vector<M> kids;
};
bool operator==(M const &a, M const &b) { return a.v == b.v && a.kids == b.kids; }

std::string show(M const &m)
{
  std::string r = std::to_string(m.v);
  if (!m.kids.empty())
  {
    r += "(";
    for (std::size_t i = 0; i < m.kids.size(); ++i) r += (i ? " " : "") + show(m.kids[i]);
    r += ")";
  }
  return r;
}
std::size_t msize(M const &m)
{
  std::size_t n = 1;
  for (M const &k : m.kids) n += msize(k);
  return n;
}
std::size_t mdepth(M const &m)
{
  std::size_t d = 0;
  for (M const &k : m.kids) d = std::max(d, mdepth(k));
  return d + 1;
}
void mpre(M const &m, std::vector<int> &out)
{
  out.push_back(m.v);
  for (M const &k : m.kids) mpre(k, out);
}

struct node_ref
{
  tree *t;
  M *m;
  tree *parent; // real parent (nullptr for roots)
  M *mparent;
  std::size_t index_in_parent;
  std::size_t level;
};

void collect(tree &t, M &m, tree *p, M *mp, std::size_t idx, std::size_t lvl, std::vector<node_ref> &out)
{
  out.push_back(node_ref{&t, &m, p, mp, idx, lvl});
  std::size_t i = 0;
  for (tree &c : t)
  {
    if (i >= m.kids.size()) break;
    collect(c, m.kids[i], &t, &m, i, lvl + 1, out);
    ++i;
  }
}

// full structural comparison; returns false after reporting
bool verify(tree &t, M const &m, tree *expected_parent, char const *after, std::string const &where)
{
  fcppt::optional::reference<tree> const p = t.parent();
  if (expected_parent == nullptr)
  {
    if (p.has_value())
    {
      fail(std::string("tree|") + after + "|root-has-parent", where + ": a root / detached tree reports a parent");
      return false;
    }
  }
  else
  {
    if (!p.has_value())
    {
      fail(std::string("tree|") + after + "|child-without-parent", where + ": a child reports no parent");
      return false;
    }
    if (&p.get_unsafe().get() != expected_parent)
    {
      fail(std::string("tree|") + after + "|child-wrong-parent", where + ": parent() does not refer to the node that lists this child");
      return false;
    }
    tree const &ct = t;
    auto const cp = ct.parent();
    if (!cp.has_value() || &cp.get_unsafe().get() != expected_parent)
    {
      fail(std::string("tree|") + after + "|const-parent", where + ": const parent() disagrees");
      return false;
    }
  }
  if (t.value() != m.v)
  {
    fail(std::string("tree|") + after + "|value", where + ": value " + std::to_string(t.value()) + ", model " + std::to_string(m.v));
    return false;
  }
  if (t.size() != m.kids.size() || t.empty() != m.kids.empty() || t.children().size() != m.kids.size())
  {
    fail(std::string("tree|") + after + "|child-count", where + ": " + std::to_string(t.size()) + " children, model " + std::to_string(m.kids.size()));
    return false;
  }
  std::size_t i = 0;
  for (tree &c : t)
  {
    if (!verify(c, m.kids[i], &t, after, where + "." + std::to_string(i))) return false;
    ++i;
  }
  if (!m.kids.empty())
  {
    if (!t.front().has_value() || &t.front().get_unsafe().get() != &*t.begin() || !t.back().has_value() || &t.back().get_unsafe().get() != &*std::prev(t.end()))
    {
      fail(std::string("tree|") + after + "|front-back", where + ": front()/back() do not refer to the first/last child");
      return false;
    }
  }
  else if (t.front().has_value() || t.back().has_value())
  {
    fail(std::string("tree|") + after + "|front-back-empty", where + ": front()/back() of a leaf have a value");
    return false;
  }
  return true;
}

tree build(M const &m)
{
  tree t(m.v);
  for (M const &k : m.kids) t.push_back(build(k));
  return t;
}

M small_model(u64 seed)
{
  M m{static_cast<int>(seed % 50), {}};
  unsigned const nk = static_cast<unsigned>((seed >> 8) % 3);
  for (unsigned i = 0; i < nk; ++i)
  {
    M k{static_cast<int>((seed >> (12 + 4 * i)) % 50), {}};
    if (((seed >> (24 + i)) & 1U) != 0) k.kids.push_back(M{static_cast<int>((seed >> 30) % 50), {}});
    m.kids.push_back(k);
  }
  return m;
}

bool is_ancestor_or_self(std::vector<node_ref> const &nodes, std::size_t a, std::size_t b)
{
  // is nodes[a] an ancestor of (or equal to) nodes[b]?
  tree *t = nodes[b].t;
  std::size_t cur = b;
  for (;;)
  {
    if (nodes[cur].t == nodes[a].t) return true;
    tree *p = nodes[cur].parent;
    if (p == nullptr) return false;
    std::size_t j = 0;
    for (; j < nodes.size(); ++j)
      if (nodes[j].t == p) break;
    if (j == nodes.size()) return false;
    cur = j;
  }
  (void)t;
}

char const *const op_names[] = {"push_back_value", "push_front_value", "push_back_tree", "push_front_tree", "pop_back", "pop_front",
                                "insert_value", "insert_tree", "erase", "erase_range", "release", "clear", "sort", "swap",
                                "copy_construct", "move_construct", "copy_assign", "move_assign", "set_value", "observe",
                                "adopt_root", "sort_pred"};
constexpr unsigned n_ops = 22;
constexpr std::size_t max_roots = 4;
constexpr std::size_t max_nodes = 40;

struct forest
{
  std::vector<std::unique_ptr<tree>> roots;
  std::vector<M> models;
  bool deep_op{false}, traversed_after{false};

  std::vector<node_ref> all()
  {
    std::vector<node_ref> out;
    for (std::size_t r = 0; r < roots.size(); ++r) collect(*roots[r], models[r], nullptr, nullptr, r, 0, out);
    return out;
  }
  std::size_t total()
  {
    std::size_t n = 0;
    for (M const &m : models) n += msize(m);
    return n;
  }
  bool check_all(char const *after)
  {
    for (std::size_t r = 0; r < roots.size(); ++r)
      if (!verify(*roots[r], models[r], nullptr, after, "root" + std::to_string(r))) return false;
    return true;
  }
  void add_root(tree &&t, M m)
  {
    if (roots.size() < max_roots)
    {
      roots.push_back(std::make_unique<tree>(std::move(t)));
      models.push_back(std::move(m));
    }
  }
  // a detached tree returned by the library: must be a consistent root equal to the model
  bool check_detached(tree &t, M const &m, char const *after) { return verify(t, m, nullptr, after, "detached"); }

  bool observe(node_ref const &n, std::vector<node_ref> const &nodes)
  {
    tree &t = *n.t;
    M const &m = *n.m;
    // pre_order (non-const and const)
    std::vector<int> expect;
    mpre(m, expect);
    std::vector<int> got;
    for (tree &x : fcppt::container::tree::make_pre_order(t)) got.push_back(x.value());
    tree const &ct = t;
    std::vector<int> gotc;
    for (tree const &x : fcppt::container::tree::make_pre_order(ct)) gotc.push_back(x.value());
    if (got != expect || gotc != expect)
    {
      fail("tree|pre_order|sequence", "pre_order of " + show(m) + " yields a different sequence");
      return false;
    }
    // to_root: values up to the root
    std::vector<tree const *> chain;
    for (tree const &x : fcppt::container::tree::make_to_root(ct)) chain.push_back(&x);
    std::vector<tree const *> expect_chain;
    {
      tree *cur = n.t;
      std::size_t idx = 0;
      for (std::size_t j = 0; j < nodes.size(); ++j)
        if (nodes[j].t == cur) idx = j;
      for (;;)
      {
        expect_chain.push_back(nodes[idx].t);
        if (nodes[idx].parent == nullptr) break;
        for (std::size_t j = 0; j < nodes.size(); ++j)
          if (nodes[j].t == nodes[idx].parent) { idx = j; break; }
      }
    }
    if (chain != expect_chain)
    {
      fail("tree|to_root|sequence", "to_root does not enumerate the chain of ancestors (length " + std::to_string(chain.size()) + ", expected " + std::to_string(expect_chain.size()) + ")");
      return false;
    }
    if (fcppt::container::tree::level(ct) != n.level)
    {
      fail("tree|level|value", "level " + std::to_string(fcppt::container::tree::level(ct)) + ", expected " + std::to_string(n.level));
      return false;
    }
    if (fcppt::container::tree::depth(ct) != mdepth(m))
    {
      fail("tree|depth|value", "depth " + std::to_string(fcppt::container::tree::depth(ct)) + " of " + show(m) + ", expected " + std::to_string(mdepth(m)));
      return false;
    }
    if (n.parent != nullptr)
    {
      auto const pos = fcppt::container::tree::child_position(*n.parent, t);
      if (!pos.has_value() || static_cast<std::size_t>(std::distance(n.parent->begin(), pos.get_unsafe())) != n.index_in_parent)
      {
        fail("tree|child_position|value", "child_position does not find the child at index " + std::to_string(n.index_in_parent));
        return false;
      }
      // a node that is not a child of t's parent is not found
      if (fcppt::container::tree::child_position(t, *n.parent).has_value())
      {
        fail("tree|child_position|non-child-found", "child_position(child, parent) has a value");
        return false;
      }
    }
    // map and comparison against an independently built tree
    tree const rebuilt = build(m);
    if (!(rebuilt == ct) || (rebuilt != ct))
    {
      fail("tree|comparison|equal", "tree " + show(m) + " compares unequal to an identically built tree");
      return false;
    }
    M changed = m;
    changed.v += 1;
    if (build(changed) == ct)
    {
      fail("tree|comparison|different-value", "trees with different root values compare equal");
      return false;
    }
    if (!m.kids.empty())
    {
      M c2 = m;
      c2.kids.back().v += 1;
      M c3 = m;
      c3.kids.pop_back();
      if (build(c2) == ct || build(c3) == ct)
      {
        fail("tree|comparison|different-child", "trees that differ in a child compare equal");
        return false;
      }
    }
    // same pre-order value sequence, different shape: every node but the root hung flat under the root
    if (msize(m) >= 3)
    {
      M flat{m.v, {}};
      for (std::size_t i = 1; i < expect.size(); ++i) flat.kids.push_back(M{expect[i], {}});
      if (!(flat == m) && (build(flat) == ct || !(build(flat) != ct)))
      {
        fail("tree|comparison|same-values-different-shape", "tree " + show(m) + " compares equal to " + show(flat) + " (same pre-order values, different shape)");
        return false;
      }
      // and the chain: every node the only child of its predecessor
      M chain{expect.back(), {}};
      for (std::size_t i = expect.size() - 1; i-- > 0;) chain = M{expect[i], {chain}};
      if (!(chain == m) && (build(chain) == ct || !(build(chain) != ct)))
      {
        fail("tree|comparison|same-values-different-shape", "tree " + show(m) + " compares equal to " + show(chain) + " (same pre-order values, different shape)");
        return false;
      }
    }
    ltree const mapped = fcppt::container::tree::map<ltree>(ct, [](int const v) { return static_cast<long>(v) * 2 + 1; });
    {
      std::vector<long> mv;
      for (ltree const &x : fcppt::container::tree::make_pre_order(mapped)) mv.push_back(x.value());
      bool ok = mv.size() == expect.size() && !mapped.parent().has_value();
      for (std::size_t i = 0; ok && i < mv.size(); ++i) ok = mv[i] == static_cast<long>(expect[i]) * 2 + 1;
      // links of the mapped tree
      for (ltree const &x : fcppt::container::tree::make_pre_order(mapped))
        for (ltree const &c : x)
          if (!c.parent().has_value() || &c.parent().get_unsafe().get() != &x) ok = false;
      // shape: the result has the shape of the operand (which may be an inner node), node by node
      if (ok) ok = same_shape_mapped(mapped, m);
      if (!ok)
      {
        fail("tree|map|result", "map of " + show(m) + " has wrong values, shape or parent links");
        return false;
      }
    }
    return true;
  }

  static bool same_shape_mapped(ltree const &r, M const &m)
  {
    if (r.value() != static_cast<long>(m.v) * 2 + 1) return false;
    if (static_cast<std::size_t>(std::distance(r.begin(), r.end())) != m.kids.size()) return false;
    std::size_t i = 0;
    for (ltree const &c : r)
      if (!same_shape_mapped(c, m.kids[i++])) return false;
    return true;
  }

  void step(unsigned op, u64 x, u64 y, u64 z)
  {
    std::vector<node_ref> nodes = all();
    if (nodes.empty()) return;
    node_ref const n = nodes[static_cast<std::size_t>(x % nodes.size())];
    tree &t = *n.t;
    M &m = *n.m;
    char const *const name = op_names[op];
    bool const room = total() < max_nodes;
    int const val = static_cast<int>(y % 50);
    std::size_t const nk = m.kids.size();
    bool const deep = n.level >= 1 && nk > 0;
    switch (op)
    {
    case 0:
      if (!room) break;
      {
        tree &r = t.push_back(val).get();
        m.kids.push_back(M{val, {}});
        if (&r != &*std::prev(t.end())) fail("tree|push_back|returned-reference", "push_back did not return a reference to the new last child");
      }
      break;
    case 1:
      if (!room) break;
      {
        tree &r = t.push_front(val).get();
        m.kids.insert(m.kids.begin(), M{val, {}});
        if (&r != &*t.begin()) fail("tree|push_front|returned-reference", "push_front did not return a reference to the new first child");
      }
      break;
    case 2:
    case 3:
    case 7:
    {
      if (!room) break;
      M const sm = small_model(y);
      tree sub = build(sm);
      if (op == 2) { t.push_back(std::move(sub)); m.kids.push_back(sm); }
      else if (op == 3) { t.push_front(std::move(sub)); m.kids.insert(m.kids.begin(), sm); }
      else
      {
        std::size_t const p = static_cast<std::size_t>(z % (nk + 1));
        t.insert(std::next(t.begin(), static_cast<std::ptrdiff_t>(p)), std::move(sub));
        m.kids.insert(m.kids.begin() + static_cast<std::ptrdiff_t>(p), sm);
      }
      break;
    }
    case 4:
    case 5:
    {
      fcppt::optional::object<tree> r = op == 4 ? t.pop_back() : t.pop_front();
      if (r.has_value() != (nk != 0))
      {
        fail(std::string("tree|") + name + "|presence", "pop on a node with " + std::to_string(nk) + " children");
        break;
      }
      if (nk == 0) break;
      M const removed = op == 4 ? m.kids.back() : m.kids.front();
      if (op == 4) m.kids.pop_back(); else m.kids.erase(m.kids.begin());
      if (!check_detached(r.get_unsafe(), removed, name)) break;
      if (z & 1U) add_root(std::move(r.get_unsafe()), removed);
      break;
    }
    case 6:
    {
      if (!room) break;
      std::size_t const p = static_cast<std::size_t>(z % (nk + 1));
      t.insert(std::next(t.begin(), static_cast<std::ptrdiff_t>(p)), val);
      m.kids.insert(m.kids.begin() + static_cast<std::ptrdiff_t>(p), M{val, {}});
      break;
    }
    case 8:
    {
      if (nk == 0) break;
      std::size_t const p = static_cast<std::size_t>(z % nk);
      t.erase(std::next(t.begin(), static_cast<std::ptrdiff_t>(p)));
      m.kids.erase(m.kids.begin() + static_cast<std::ptrdiff_t>(p));
      break;
    }
    case 9:
    {
      std::size_t const a = static_cast<std::size_t>(y % (nk + 1)), b = a + static_cast<std::size_t>(z % (nk - a + 1));
      t.erase(std::next(t.begin(), static_cast<std::ptrdiff_t>(a)), std::next(t.begin(), static_cast<std::ptrdiff_t>(b)));
      m.kids.erase(m.kids.begin() + static_cast<std::ptrdiff_t>(a), m.kids.begin() + static_cast<std::ptrdiff_t>(b));
      break;
    }
    case 10:
    {
      if (nk == 0) break;
      std::size_t const p = static_cast<std::size_t>(z % nk);
      if (m.kids[p].kids.size() > 0) deep_op = true;
      tree r = t.release(std::next(t.begin(), static_cast<std::ptrdiff_t>(p)));
      M const removed = m.kids[p];
      m.kids.erase(m.kids.begin() + static_cast<std::ptrdiff_t>(p));
      if (!check_detached(r, removed, name)) break;
      if (y & 1U) add_root(std::move(r), removed);
      break;
    }
    case 11: t.clear(); m.kids.clear(); break;
    case 12:
      t.sort();
      std::stable_sort(m.kids.begin(), m.kids.end(), [](M const &a, M const &b) { return a.v < b.v; });
      break;
    case 21:
      t.sort([](int a, int b) { return a > b; });
      std::stable_sort(m.kids.begin(), m.kids.end(), [](M const &a, M const &b) { return a.v > b.v; });
      break;
    case 13:
    case 16:
    case 17:
    {
      std::size_t const ia = static_cast<std::size_t>(x % nodes.size()), ib = static_cast<std::size_t>(y % nodes.size());
      if (ia == ib)
      {
        // the operand is the node itself: self-swap and self-copy-assignment (explicitly handled by
        // the implementation) leave the node unchanged; self-move-assignment is not generated
        if (op == 13) { if (z & 1U) t.swap(t); else swap(t, t); cls("self-swap"); }
        else if (op == 16) { tree &self = t; t = static_cast<tree const &>(self); cls("self-copy-assign"); }
        break;
      }
      // Domain: a and b unrelated, or (assignments only) b a proper descendant of a - "replace a node
      // by one of its sub-trees". The implementation supports that by first moving / copying the
      // source's children into a temporary list; the source is destroyed together with a's old
      // children. The opposite direction (assigning an ancestor to its descendant) and swapping
      // related nodes would create a cycle and are outside the domain.
      bool const b_below_a = is_ancestor_or_self(nodes, ia, ib);
      if (is_ancestor_or_self(nodes, ib, ia)) break;
      if (b_below_a && op == 13) break;
      node_ref const o = nodes[ib];
      if (b_below_a)
      {
        cls(op == 16 ? "copy-assign-from-descendant" : "move-assign-from-descendant");
        deep_op = true;
        M const src = *o.m; // the model of the source, taken before a's children (and the source) go away
        if (op == 16) t = static_cast<tree const &>(*o.t); else t = std::move(*o.t);
        m = src;
        break;
      }
      if (op == 16 && total() + msize(*o.m) > max_nodes + 20) break;
      if (deep || (o.level >= 1 && !o.m->kids.empty())) deep_op = true;
      if (n.level >= 1 || o.level >= 1) cls(op == 13 ? "swap-involving-child" : op == 16 ? "copy-assign-involving-child" : "move-assign-involving-child");
      if (op == 13)
      {
        if (z & 1U) t.swap(*o.t); else swap(t, *o.t);
        std::swap(m.v, o.m->v);
        m.kids.swap(o.m->kids);
      }
      else if (op == 16)
      {
        t = static_cast<tree const &>(*o.t);
        M const copy = *o.m;
        m = copy;
      }
      else
      {
        t = std::move(*o.t);
        // Reading: the source keeps its place in its parent (or stays a root), has no children any
        // more and a moved-from value (an int keeps its value)
        M moved = std::move(*o.m);
        m.v = moved.v;
        m.kids = std::move(moved.kids);
        o.m->v = moved.v;
        o.m->kids.clear();
      }
      break;
    }
    case 14:
    {
      if (total() + msize(m) > max_nodes + 20) break;
      if (deep) deep_op = true;
      tree copy(static_cast<tree const &>(t));
      if (!check_detached(copy, m, name)) break;
      M const cm = m;
      add_root(std::move(copy), cm);
      break;
    }
    case 15:
    {
      if (deep) deep_op = true;
      tree moved(std::move(t));
      M const mm = m;
      m.kids.clear();
      if (!check_detached(moved, mm, name)) break;
      add_root(std::move(moved), mm);
      break;
    }
    case 18:
      if (z & 1U) t.value(val); else { int v2 = val; t.value(std::move(v2)); }
      m.v = val;
      if (t.value() != val) fail("tree|value|set", "value(x) did not set the value");
      break;
    case 19:
      if (deep_op) traversed_after = true;
      observe(n, nodes);
      break;
    case 20:
    {
      // move a whole other root under this node
      if (roots.size() < 2) break;
      std::size_t const r = static_cast<std::size_t>(y % roots.size());
      std::size_t ni = static_cast<std::size_t>(x % nodes.size());
      // target must not live in root r
      bool inside = false;
      {
        std::vector<node_ref> sub;
        collect(*roots[r], models[r], nullptr, nullptr, 0, 0, sub);
        for (node_ref const &s : sub)
          if (s.t == nodes[ni].t) inside = true;
      }
      if (inside) break;
      if (!models[r].kids.empty()) deep_op = true;
      t.push_back(std::move(*roots[r]));
      m.kids.push_back(models[r]);
      roots.erase(roots.begin() + static_cast<std::ptrdiff_t>(r));
      models.erase(models.begin() + static_cast<std::ptrdiff_t>(r));
      break;
    }
    default: break;
    }
    if (failed_in_current_case()) return;
    check_all(name);
  }
};

void tree_case(Ints const &c)
{
  Choices ch(c);
  std::size_t const nframes = c.size() / 4;
  forest f;
  {
    M const m0 = small_model(ch.raw());
    ch.skip_to_frame();
    f.roots.push_back(std::make_unique<tree>(build(m0)));
    f.models.push_back(m0);
    // a second root that already has depth 3, so that operations on inner nodes with children are common
    M const m1{7, {M{8, {M{9, {}}, M{10, {M{11, {}}}}}}, M{12, {}}}};
    f.roots.push_back(std::make_unique<tree>(build(m1)));
    f.models.push_back(m1);
  }
  if (!f.check_all("construct")) { count(false); return; }
  for (std::size_t i = 1; i < nframes; ++i)
  {
    unsigned const op = static_cast<unsigned>(ch.range(0, n_ops - 1));
    u64 const x = ch.raw(), y = ch.raw(), z = ch.raw();
    ch.skip_to_frame();
    f.step(op, x, y, z);
    if (failed_in_current_case()) break;
  }
  if (!failed_in_current_case())
  {
    // final: observe every node, then destroy roots in a generated order (ASan sees stale links)
    std::vector<node_ref> nodes = f.all();
    for (node_ref const &n : nodes)
      if (!f.observe(n, nodes)) break;
    if (f.deep_op) f.traversed_after = true;
  }
  count(f.deep_op && f.traversed_after);
  while (!f.roots.empty()) f.roots.pop_back();
}
std::string tree_describe(Ints const &c)
{
  Choices ch(c);
  std::size_t const nframes = c.size() / 4;
  std::string r = "forest{" + show(small_model(ch.raw())) + ", 7(8(9 10(11)) 12)}:";
  ch.skip_to_frame();
  for (std::size_t i = 1; i < nframes && i < 60; ++i)
  {
    unsigned const op = static_cast<unsigned>(ch.range(0, n_ops - 1));
    u64 const x = ch.raw(), y = ch.raw(), z = ch.raw();
    ch.skip_to_frame();
    r += std::string(" ") + op_names[op] + "(" + std::to_string(x % 1000) + "," + std::to_string(y % 1000) + "," + std::to_string(z % 1000) + ")";
  }
  return r;
}
// ------------------------------------------------------------------ sort on a node with MANY children
// The histories above rarely give a node more than a handful of children. Here one root gets
// 0..48 children with keys from a small set (many equal keys), each child carries a grandchild with
// a unique tag, and sort() / sort(predicate) is compared with std::stable_sort on the model - the
// children are kept in a std::list, whose sort is stable, and the history section demands the same
// (equal keys keep their relative order, sub-trees travel with their node). Parent links must
// survive. Sizes beyond 16 matter: std::sort-like implementations switch algorithm there.
void sort_many_case(Ints const &c)
{
  Choices ch(c);
  std::size_t const n = static_cast<std::size_t>(ch.range(0, 48));
  bool const with_pred = ch.flag();
  int const nkeys = static_cast<int>(ch.range(1, 4));
  ch.skip_to_frame();
  tree root(1000);
  std::vector<std::pair<int, int>> model; // (key, unique tag)
  for (std::size_t i = 0; i < n; ++i)
  {
    int const key = static_cast<int>(ch.range(0, nkeys - 1));
    tree child(key);
    child.push_back(tree(static_cast<int>(2000 + i)));
    root.push_back(std::move(child));
    model.emplace_back(key, static_cast<int>(2000 + i));
  }
  bool dup = false;
  for (std::size_t i = 0; i < model.size(); ++i)
    for (std::size_t j = i + 1; j < model.size(); ++j) dup = dup || model[i].first == model[j].first;
  count(n >= 17 && dup);
  if (with_pred)
  {
    root.sort([](int const a, int const b) { return a > b; });
    std::stable_sort(model.begin(), model.end(), [](auto const &a, auto const &b) { return a.first > b.first; });
  }
  else
  {
    root.sort();
    std::stable_sort(model.begin(), model.end(), [](auto const &a, auto const &b) { return a.first < b.first; });
  }
  std::vector<std::pair<int, int>> got;
  bool links = true;
  for (tree const &ch_ : root)
  {
    int tag = -1;
    if (!ch_.empty()) tag = ch_.front().get_unsafe().get().value();
    got.emplace_back(ch_.value(), tag);
    links = links && ch_.parent().has_value() && &ch_.parent().get_unsafe().get() == &root;
    for (tree const &g : ch_) links = links && g.parent().has_value() && &g.parent().get_unsafe().get() == &ch_;
  }
  std::string const what = std::string(with_pred ? "sort(greater)" : "sort()") + " of " + std::to_string(n) + " children over " + std::to_string(nkeys) + " keys";
  if (got.size() != model.size()) fail("tree|sort-many|lost-or-duplicated", what + ": " + std::to_string(got.size()) + " children afterwards");
  else if (got != model)
  {
    bool sorted_ok = true;
    for (std::size_t i = 1; i < got.size(); ++i) sorted_ok = sorted_ok && (with_pred ? !(got[i - 1].first < got[i].first) : !(got[i].first < got[i - 1].first));
    fail(sorted_ok ? "tree|sort-many|not-stable" : "tree|sort-many|not-sorted", what + ": child order differs from the stable sort of the model");
  }
  if (!links) fail("tree|sort-many|child-wrong-parent", what + ": a parent link is wrong after the sort");
}
Reg const r_sort_many{"sort_many_children", Kind::random, "at least 17 children and two of them with equal keys",
                      [] { run_random(*g_cur.sec, {1500, 60}, {20000, 60}); }, sort_many_case,
                      [](Ints const &c) {
                        Choices ch(c);
                        std::size_t const n = static_cast<std::size_t>(ch.range(0, 48));
                        bool const with_pred = ch.flag();
                        int const nkeys = static_cast<int>(ch.range(1, 4));
                        return std::string(with_pred ? "sort(greater)" : "sort()") + " on a root with " + std::to_string(n) + " children over " + std::to_string(nkeys) + " distinct keys, each child with a uniquely tagged grandchild";
                      }};

Reg const r_tree{"tree_histories", Kind::random,
                 "history contains a swap / assignment / release / move involving a node at depth >= 1 that has children, followed by a traversal or the final destruction",
                 [] { run_random(*g_cur.sec, {20000, 26}, {40000, 42}); }, tree_case, tree_describe};
}
