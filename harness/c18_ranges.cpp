// VERIF: quick_shards=8
// C18 - ranges and iterators enumerate exactly their documented sequence.
// Oracle: the literal sequences written out with plain loops over 128-bit / 64-bit integers
// (b, b+1, ..., e-1; the enumerators of a closed sub-range; (start + n) mod length; the Manhattan
// ball; the 8 / 4 neighbour offsets; sub-vectors), compared element by element with what iterating
// begin()..end() of the fcppt range yields. Every iteration is bounded by the expected length + 1.
#include "verif.hpp"

#include <fcppt/cyclic_iterator.hpp>
#include <fcppt/int_iterator_impl.hpp>
#include <fcppt/int_range_impl.hpp>
#include <fcppt/make_int_range.hpp>
#include <fcppt/make_int_range_count.hpp>
#include <fcppt/make_literal_strong_typedef.hpp>
#include <fcppt/make_strong_typedef.hpp>
#include <fcppt/strong_typedef.hpp>
#include <fcppt/tag.hpp>
#include <fcppt/algorithm/loop.hpp>
#include <fcppt/algorithm/loop_break_mpl.hpp>
#include <fcppt/array/object.hpp>
#include <fcppt/container/grid/make_spiral_range.hpp>
#include <fcppt/container/grid/moore_neighbors.hpp>
#include <fcppt/container/grid/neumann_neighbors.hpp>
#include <fcppt/container/grid/pos.hpp>
#include <fcppt/container/grid/spiral_iterator_impl.hpp>
#include <fcppt/container/grid/spiral_range_impl.hpp>
#include <fcppt/enum/make_range.hpp>
#include <fcppt/enum/make_range_start.hpp>
#include <fcppt/enum/make_range_start_end.hpp>
#include <fcppt/enum/range_impl.hpp>
#include <fcppt/iterator/adapt_range.hpp>
#include <fcppt/iterator/make_range.hpp>
#include <fcppt/algorithm/map.hpp>
#include <fcppt/iterator/range_impl.hpp>
#include <fcppt/math/int_range.hpp>
#include <fcppt/math/int_range_count.hpp>
#include <fcppt/math/size_constant.hpp>
#include <fcppt/math/size_type.hpp>
#include <fcppt/math/vector/comparison.hpp>
#include <fcppt/range/size.hpp>
#include <fcppt/tuple/object.hpp>
#include <fcppt/type_iso/strong_typedef.hpp>

#include <algorithm>
#include <array>
#include <cstdint>
#include <iterator>
#include <limits>
#include <list>
#include <string>
#include <sstream>
#include <tuple>
#include <type_traits>
#include <utility>
#include <vector>

using namespace verif;
using i128 = __int128;

namespace
{
i64 geti(Ints const &c, std::size_t i) { return i < c.size() ? c[i] : 0; }
i64 clampi(i64 v, i64 lo, i64 hi) { return v < lo ? lo : v > hi ? hi : v; }

// =================================================================== int_range
FCPPT_MAKE_STRONG_TYPEDEF(int, strong_int);
FCPPT_MAKE_STRONG_TYPEDEF(std::int8_t, strong_i8);
FCPPT_MAKE_STRONG_TYPEDEF(std::uint8_t, strong_u8);
FCPPT_MAKE_STRONG_TYPEDEF(std::uint64_t, strong_u64);

template <typename I>
struct Wrap
{
  using under = I;
  static I make(under v) { return v; }
  static under get(I v) { return v; }
};
template <typename U, typename Tag>
struct Wrap<fcppt::strong_typedef<U, Tag>>
{
  using under = U;
  static fcppt::strong_typedef<U, Tag> make(under v) { return fcppt::strong_typedef<U, Tag>(v); }
  static under get(fcppt::strong_typedef<U, Tag> v) { return v.get(); }
};

using int_types = std::tuple<
    std::int8_t, std::uint8_t, std::int16_t, std::uint16_t, std::int32_t, std::uint32_t, std::int64_t, std::uint64_t,
    strong_int, strong_i8, strong_u8, strong_u64, long long, unsigned long long>;
char const *const int_type_names[] = {"int8_t", "uint8_t", "int16_t", "uint16_t", "int32_t", "uint32_t", "int64_t", "uint64_t",
                                      "strong_typedef<int>", "strong_typedef<int8_t>", "strong_typedef<uint8_t>", "strong_typedef<uint64_t>", "long long", "unsigned long long"};
constexpr std::size_t n_int_types = std::tuple_size_v<int_types>;

template <typename U>
U from_bits(i64 v) { return static_cast<U>(static_cast<std::make_unsigned_t<U>>(static_cast<u64>(v))); }
template <typename U>
constexpr i128 tmin() { return std::numeric_limits<U>::min(); }
template <typename U>
constexpr i128 tmax() { return std::numeric_limits<U>::max(); }

// the iterators are also consumed the other way round: `*it++` must yield the element `*it` would
// have yielded before the step (the iterator requirements every category shares), and both walks
// reach the end together. limit: how many leading elements are compared (0 = all)
template <typename R, typename Proj>
void post_increment_check(R const &r, long long limit, std::string const &key, std::string const &ctx, Proj const &proj)
{
  auto a = r.begin();
  auto b = r.begin();
  auto const en = r.end();
  long long k = 0;
  while (a != en && b != en && (limit == 0 || k < limit))
  {
    auto const va = proj(*a);
    auto const vb = proj(*b++);
    if (!(va == vb))
    {
      fail(key + "|post-increment|element", ctx + ": element " + std::to_string(k) + " read with *it++ differs from the one read with *it");
      return;
    }
    ++a;
    ++k;
  }
  if ((limit == 0 || k < limit) && ((a == en) != (b == en)))
    fail(key + "|post-increment|length", ctx + ": walking with it++ and with ++it does not end after the same number of steps (" + std::to_string(k) + ")");
}

// cap: how many leading elements are compared when the range is longer (0 = all)
template <typename I>
void ir_check(char const *fn, fcppt::int_range<I> const &r, i128 b, i128 e, i128 cap, std::string const &tn)
{
  using W = Wrap<I>;
  using U = typename W::under;
  VERIF_TYPE_FACT((std::is_same_v<typename fcppt::int_range<I>::size_type, U>), "std::is_same_v<typename fcppt::int_range<I>::size_type, U>");
  i128 const n = e > b ? e - b : 0; // the documented number of elements
  bool const whole = cap == 0 || n <= cap;
  i128 const lim = whole ? n : cap;
  i128 k = 0;
  auto it = r.begin();
  auto const en = r.end();
  char const *const cl = n == 0 ? "empty-or-inverted" : "non-empty";
  for (; it != en; ++it)
  {
    if (k == lim)
    {
      if (whole) fail(std::string(fn) + "|too-long|" + cl, tn + " [" + str(b) + "," + str(e) + "): more than " + str(n) + " elements");
      break;
    }
    i128 const v = static_cast<i128>(W::get(*it));
    if (v != b + k)
    {
      fail(std::string(fn) + "|sequence|" + cl, tn + " [" + str(b) + "," + str(e) + "): element " + str(k) + " is " + str(v) + ", expected " + str(b + k));
      return;
    }
    ++k;
  }
  if (k < lim) fail(std::string(fn) + "|too-short|" + cl, tn + " [" + str(b) + "," + str(e) + "): ended after " + str(k) + " elements, expected " + str(n));
  post_increment_check(r, static_cast<long long>(lim) + 1, std::string(fn), tn + " [" + str(b) + "," + str(e) + ")", [](auto const &v) { return static_cast<i128>(W::get(v)); });
  // size(): only when the number of elements is representable in the range's own integer type
  if (n <= tmax<U>())
  {
    i128 const s = static_cast<i128>(r.size());
    if (s != n) fail(std::string(fn) + "|size|" + cl, tn + " [" + str(b) + "," + str(e) + "): size() = " + str(s) + ", expected " + str(n));
  }
  else
    skip();
}

bool ir_nontrivial(i128 b, i128 e, i128 mn, i128 mx) { return e <= b || b == mn || b == mx || e == mn || e == mx; }

template <std::size_t TI>
void ir_pair_at(i64 bb, i64 eb, i64 cap)
{
  using I = std::tuple_element_t<TI, int_types>;
  using W = Wrap<I>;
  using U = typename W::under;
  U const b = from_bits<U>(bb), e = from_bits<U>(eb);
  count(ir_nontrivial(b, e, tmin<U>(), tmax<U>()));
  static std::string const tn = int_type_names[TI];
  ir_check<I>("make_int_range", fcppt::make_int_range(W::make(b), W::make(e)), b, e, cap, tn);
}
template <std::size_t TI>
void ir_count_at(i64 nb)
{
  using I = std::tuple_element_t<TI, int_types>;
  using W = Wrap<I>;
  using U = typename W::under;
  U const n = from_bits<U>(nb);
  count(n <= 0 || n == tmax<U>() || n == tmin<U>());
  static std::string const tn = int_type_names[TI];
  ir_check<I>("make_int_range_count", fcppt::make_int_range_count(W::make(n)), 0, n, 300, tn);
}
using pair_fn = void (*)(i64, i64, i64);
using count_fn = void (*)(i64);
template <std::size_t... I>
constexpr std::array<pair_fn, n_int_types> mk_pair_table(std::index_sequence<I...>) { return {{&ir_pair_at<I>...}}; }
template <std::size_t... I>
constexpr std::array<count_fn, n_int_types> mk_count_table(std::index_sequence<I...>) { return {{&ir_count_at<I>...}}; }
constexpr auto pair_table = mk_pair_table(std::make_index_sequence<n_int_types>{});
constexpr auto count_table = mk_count_table(std::make_index_sequence<n_int_types>{});

// case ints: kind (0 = make_int_range, 1 = make_int_range_count), type index, b bits, e bits, cap
void ir_one(Ints const &c)
{
  std::size_t const ti = static_cast<std::size_t>(clampi(geti(c, 1), 0, static_cast<i64>(n_int_types) - 1));
  if (geti(c, 0) & 1) count_table[ti](geti(c, 2));
  else pair_table[ti](geti(c, 2), geti(c, 3), clampi(geti(c, 4), 0, 100000));
}
std::string ir_describe(Ints const &c)
{
  std::size_t const ti = static_cast<std::size_t>(clampi(geti(c, 1), 0, static_cast<i64>(n_int_types) - 1));
  if (geti(c, 0) & 1) return std::string("make_int_range_count<") + int_type_names[ti] + ">(bits " + std::to_string(geti(c, 2)) + ")";
  return std::string("make_int_range<") + int_type_names[ti] + ">(bits " + std::to_string(geti(c, 2)) + ", bits " + std::to_string(geti(c, 3)) + ")" + (geti(c, 4) ? " first " + std::to_string(clampi(geti(c, 4), 0, 100000)) + " elements" : "");
}
void ir_run_pair(std::size_t ti, i64 b, i64 e, i64 cap)
{
  cur({0, static_cast<i64>(ti), b, e, cap});
  pair_table[ti](b, e, cap);
}
void ir_run_count(std::size_t ti, i64 n)
{
  cur({1, static_cast<i64>(ti), n});
  count_table[ti](n);
}
char const *const ir_rule =
    "a (type, begin, end) or (type, count) triple: the range touches the type's minimum or maximum with one of its ends, or is empty or inverted (end <= begin, count <= 0)";

// all pairs of an 8-bit type
void ir_all8(std::size_t ti, i64 lo, i64 hi)
{
  for (i64 b = lo; b <= hi; ++b)
    for (i64 e = lo; e <= hi; ++e) ir_run_pair(ti, b, e, 0);
  for (i64 n = lo; n <= hi; ++n) ir_run_count(ti, n);
}
Reg const r_ir_i8{"int_range_int8_all_pairs", Kind::exhaustive, ir_rule, [] { ir_all8(0, -128, 127); }, ir_one, ir_describe};
Reg const r_ir_u8{"int_range_uint8_all_pairs", Kind::exhaustive, ir_rule, [] { ir_all8(1, 0, 255); }, ir_one, ir_describe};
Reg const r_ir_si8{"int_range_strong_int8_all_pairs", Kind::exhaustive, ir_rule, [] { ir_all8(9, -128, 127); }, ir_one, ir_describe};
Reg const r_ir_su8{"int_range_strong_uint8_all_pairs", Kind::exhaustive, ir_rule, [] { ir_all8(10, 0, 255); }, ir_one, ir_describe};

// boundary values of a wide type (as bit patterns)
template <typename U>
std::vector<i64> boundary_values()
{
  std::vector<i128> v;
  i128 const mn = tmin<U>(), mx = tmax<U>();
  for (i128 d : {0, 1, 2, 3, 299, 300, 301})
  {
    v.push_back(mn + d);
    v.push_back(mx - d);
    v.push_back(d);
    if (std::is_signed_v<U>) v.push_back(-d);
  }
  v.push_back(mx / 2);
  v.push_back(mx / 2 + 1);
  std::sort(v.begin(), v.end());
  v.erase(std::unique(v.begin(), v.end()), v.end());
  std::vector<i64> r;
  for (i128 x : v) r.push_back(static_cast<i64>(static_cast<u64>(static_cast<unsigned __int128>(x))));
  return r;
}
template <std::size_t TI>
void ir_wide()
{
  using U = typename Wrap<std::tuple_element_t<TI, int_types>>::under;
  auto const bits = [](i128 x) { return static_cast<i64>(static_cast<u64>(static_cast<unsigned __int128>(x))); };
  i128 const mn = tmin<U>(), mx = tmax<U>();
  // every range of length 0..300 that starts at the minimum or ends at the maximum, and their inversions
  for (i128 len = 0; len <= 300; ++len)
  {
    ir_run_pair(TI, bits(mn), bits(mn + len), 0);
    ir_run_pair(TI, bits(mx - len), bits(mx), 0);
    if (len > 0)
    {
      ir_run_pair(TI, bits(mn + len), bits(mn), 0);
      ir_run_pair(TI, bits(mx), bits(mx - len), 0);
    }
  }
  // the boundary lattice squared; long ranges are compared on their first 300 elements (and size())
  auto const vals = boundary_values<U>();
  for (i64 b : vals)
    for (i64 e : vals)
    {
      i128 const vb = from_bits<U>(b), ve = from_bits<U>(e);
      bool const touching = (vb == mn && ve - vb <= 300) || (ve == mx && ve - vb <= 300) || (ve == mn && vb - ve <= 300) || (vb == mx && vb - ve <= 300);
      if (touching && ve != vb) continue; // enumerated above
      if (vb == ve && (vb == mn || vb == mx)) continue;
      ir_run_pair(TI, b, e, 300);
    }
  for (i64 n : vals) ir_run_count(TI, n);
}
Reg const r_ir_wide{
    "int_range_wide_boundaries", Kind::exhaustive, ir_rule,
    [] { ir_wide<2>(); ir_wide<3>(); ir_wide<4>(); ir_wide<5>(); ir_wide<6>(); ir_wide<7>(); ir_wide<8>(); ir_wide<11>(); ir_wide<12>(); ir_wide<13>(); },
    ir_one, ir_describe};

// the 16-bit boundary lattice squared, every range iterated completely
template <std::size_t TI>
void ir_lattice16(int slice, int slices)
{
  using U = typename Wrap<std::tuple_element_t<TI, int_types>>::under;
  auto const l = lattice<U>();
  int idx = 0;
  for (U b : l)
  {
    if (idx++ % slices != slice) continue;
    for (U e : l) ir_run_pair(TI, static_cast<i64>(b), static_cast<i64>(e), 0);
  }
}
#define C18_L16(i) Reg const VERIF_CAT(r_ir_l16_, i){"int_range_16bit_lattice_" #i, Kind::exhaustive, ir_rule, [] { ir_lattice16<2>(i, 8); ir_lattice16<3>(i, 8); }, ir_one, ir_describe};
C18_L16(0) C18_L16(1) C18_L16(2) C18_L16(3) C18_L16(4) C18_L16(5) C18_L16(6) C18_L16(7)

// every 16-bit begin with every end within +-4 of it (thorough: +-300), apart from the pairs of
// the lattice sections above
template <std::size_t TI>
void ir_band16(int slice, int slices)
{
  using U = typename Wrap<std::tuple_element_t<TI, int_types>>::under;
  i64 const w = opts().thorough() ? 300 : 4;
  std::vector<char> in_lat(65536, 0); // members of lattice<U>(), indexed by the 16-bit pattern
  for (U v : lattice<U>()) in_lat[static_cast<std::uint16_t>(v)] = 1;
  for (i64 b = static_cast<i64>(tmin<U>()) + slice; b <= static_cast<i64>(tmax<U>()); b += slices)
    for (i64 e = std::max<i64>(b - w, static_cast<i64>(tmin<U>())); e <= std::min<i64>(b + w, static_cast<i64>(tmax<U>())); ++e)
    {
      if (in_lat[static_cast<std::uint16_t>(b)] && in_lat[static_cast<std::uint16_t>(e)]) continue;
      ir_run_pair(TI, b, e, 0);
    }
}
#define C18_B16(i) Reg const VERIF_CAT(r_ir_b16_, i){"int_range_16bit_band_" #i, Kind::exhaustive, ir_rule, [] { ir_band16<2>(i, 8); ir_band16<3>(i, 8); }, ir_one, ir_describe};
C18_B16(0) C18_B16(1) C18_B16(2) C18_B16(3) C18_B16(4) C18_B16(5) C18_B16(6) C18_B16(7)

// =================================================================== static int ranges (math::int_range, int_range_count)
template <fcppt::math::size_type S, fcppt::math::size_type E>
void static_range_case()
{
  count(S == E || S == 0);
  std::vector<u64> got;
  fcppt::algorithm::loop(fcppt::math::int_range<S, E>{}, [&got]<fcppt::math::size_type I>(fcppt::tag<fcppt::math::size_constant<I>>) { got.push_back(I); });
  std::vector<u64> want;
  for (u64 k = S; k < E; ++k) want.push_back(k);
  if (got != want) fail("math::int_range|sequence", "int_range<" + str(S) + "," + str(E) + "> yields " + str(got.size()) + " elements");
  if constexpr (S == 0)
  {
    std::vector<u64> got2;
    fcppt::algorithm::loop(fcppt::math::int_range_count<E>{}, [&got2]<fcppt::math::size_type I>(fcppt::tag<fcppt::math::size_constant<I>>) { got2.push_back(I); });
    if (got2 != want) fail("math::int_range_count|sequence", "int_range_count<" + str(E) + "> yields " + str(got2.size()) + " elements");
  }
}
using static_fn = void (*)();
template <std::size_t... K>
constexpr std::array<static_fn, 49> mk_static_table(std::index_sequence<K...>)
{
  // index K = S * 7 + E; instantiated for S <= E only
  return {{(K / 7 <= K % 7 ? &static_range_case<(K / 7 <= K % 7 ? K / 7 : 0), (K / 7 <= K % 7 ? K % 7 : 0)> : nullptr)...}};
}
constexpr auto static_table = mk_static_table(std::make_index_sequence<49>{});
Reg const r_static{
    "static_int_range", Kind::exhaustive, "a compile-time range <start, end> with 0 <= start <= end <= 6: empty, or starting at 0 (also checked as int_range_count<end>)",
    [] {
      for (i64 s = 0; s < 7; ++s)
        for (i64 e = s; e < 7; ++e)
        {
          cur2(s, e);
          static_table[static_cast<std::size_t>(s * 7 + e)]();
        }
    },
    [](Ints const &c) {
      i64 const s = clampi(geti(c, 0), 0, 6), e = clampi(geti(c, 1), s, 6);
      static_table[static_cast<std::size_t>(s * 7 + e)]();
    },
    [](Ints const &c) { i64 const s = clampi(geti(c, 0), 0, 6); return "math::int_range<" + std::to_string(s) + "," + std::to_string(clampi(geti(c, 1), s, 6)) + ">"; }};

// =================================================================== enum ranges
#define C18_ENUMS(prefix, under) \
  enum class prefix##1 under{e0, fcppt_maximum = e0}; \
  enum class prefix##2 under{e0, e1, fcppt_maximum = e1}; \
  enum class prefix##3 under{e0, e1, e2, fcppt_maximum = e2}; \
  enum class prefix##4 under{e0, e1, e2, e3, fcppt_maximum = e3}; \
  enum class prefix##5 under{e0, e1, e2, e3, e4, fcppt_maximum = e4}; \
  enum class prefix##6 under{e0, e1, e2, e3, e4, e5, fcppt_maximum = e5}; \
  enum class prefix##7 under{e0, e1, e2, e3, e4, e5, e6, fcppt_maximum = e6}; \
  enum class prefix##8 under{e0, e1, e2, e3, e4, e5, e6, e7, fcppt_maximum = e7}; \
  enum class prefix##9 under{e0, e1, e2, e3, e4, e5, e6, e7, e8, fcppt_maximum = e8};
#define C18_NOTHING
C18_ENUMS(ed, C18_NOTHING)
C18_ENUMS(eu8, : std::uint8_t)
C18_ENUMS(es8, : signed char)
C18_ENUMS(eu64, : std::uint64_t)
using enum_types = std::tuple<
    ed1, ed2, ed3, ed4, ed5, ed6, ed7, ed8, ed9, eu81, eu82, eu83, eu84, eu85, eu86, eu87, eu88, eu89,
    es81, es82, es83, es84, es85, es86, es87, es88, es89, eu641, eu642, eu643, eu644, eu645, eu646, eu647, eu648, eu649>;
char const *const enum_under_names[] = {"int", "uint8_t", "signed char", "uint64_t"};

template <typename E>
void enum_check(char const *fn, fcppt::enum_::range<E> const &r, i64 first, i64 last, std::string const &tn)
{
  // the closed range [first, last], first <= last
  i64 const n = last - first + 1;
  i64 k = 0;
  auto const en = r.end();
  for (auto it = r.begin(); it != en; ++it)
  {
    if (k == n) { fail(std::string(fn) + "|too-long", tn + " [" + str(first) + "," + str(last) + "]: more than " + str(n) + " enumerators"); return; }
    E const v = *it;
    if (static_cast<i64>(v) != first + k)
    {
      fail(std::string(fn) + "|sequence", tn + " [" + str(first) + "," + str(last) + "]: element " + str(k) + " is enumerator " + str(static_cast<i64>(v)) + ", expected " + str(first + k));
      return;
    }
    ++k;
  }
  if (k != n) fail(std::string(fn) + "|too-short", tn + " [" + str(first) + "," + str(last) + "]: " + str(k) + " enumerators, expected " + str(n));
  post_increment_check(r, n + 1, std::string(fn), tn + " [" + str(first) + "," + str(last) + "]", [](E const v) { return static_cast<i64>(v); });
  if (static_cast<i64>(r.size()) != n) fail(std::string(fn) + "|size", tn + " [" + str(first) + "," + str(last) + "]: size() = " + str(static_cast<i64>(r.size())) + ", expected " + str(n));
  if (static_cast<i64>(fcppt::range::size(r)) != n) fail("range::size|enum range", tn + " [" + str(first) + "," + str(last) + "]: range::size = " + str(static_cast<i64>(fcppt::range::size(r))));
}
template <std::size_t EI>
void enum_case(i64 fnk, i64 start, i64 end)
{
  using E = std::tuple_element_t<EI, enum_types>;
  constexpr i64 size = static_cast<i64>(EI % 9) + 1;
  static std::string const tn = std::string("enum of ") + std::to_string(size) + " enumerators over " + enum_under_names[EI / 9];
  start = clampi(start, 0, size - 1);
  end = clampi(end, start, size - 1); // Reading: only start <= end is the documented closed range
  count(start == 0 || end == size - 1 || start == end);
  if (fnk == 0) enum_check<E>("enum::make_range_start_end", fcppt::enum_::make_range_start_end(static_cast<E>(start), static_cast<E>(end)), start, end, tn);
  else if (fnk == 1) enum_check<E>("enum::make_range_start", fcppt::enum_::make_range_start(static_cast<E>(start)), start, size - 1, tn);
  else enum_check<E>("enum::make_range", fcppt::enum_::make_range<E>(), 0, size - 1, tn);
}
using enum_fn = void (*)(i64, i64, i64);
template <std::size_t... I>
constexpr std::array<enum_fn, 36> mk_enum_table(std::index_sequence<I...>) { return {{&enum_case<I>...}}; }
constexpr auto enum_table = mk_enum_table(std::make_index_sequence<36>{});
Reg const r_enum{
    "enum_ranges", Kind::exhaustive,
    "an enum (1..9 enumerators; underlying int, uint8_t, signed char, uint64_t), a maker (start_end / start / whole) and a closed sub-range start <= end: the range touches the first or last enumerator or has one element",
    [] {
      for (i64 ei = 0; ei < 36; ++ei)
      {
        i64 const size = ei % 9 + 1;
        for (i64 s = 0; s < size; ++s)
        {
          for (i64 e = s; e < size; ++e) { cur4(ei, 0, s, e); enum_table[static_cast<std::size_t>(ei)](0, s, e); }
          cur4(ei, 1, s, size - 1);
          enum_table[static_cast<std::size_t>(ei)](1, s, size - 1);
        }
        cur4(ei, 2, 0, size - 1);
        enum_table[static_cast<std::size_t>(ei)](2, 0, size - 1);
      }
    },
    [](Ints const &c) { enum_table[static_cast<std::size_t>(clampi(geti(c, 0), 0, 35))](clampi(geti(c, 1), 0, 2), geti(c, 2), geti(c, 3)); },
    [](Ints const &c) {
      i64 const ei = clampi(geti(c, 0), 0, 35), fnk = clampi(geti(c, 1), 0, 2);
      return std::string("enum of ") + std::to_string(ei % 9 + 1) + " over " + enum_under_names[ei / 9] + (fnk == 0 ? ": make_range_start_end(" : fnk == 1 ? ": make_range_start(" : ": make_range(") + std::to_string(geti(c, 2)) + "," + std::to_string(geti(c, 3)) + ")";
    }};

// =================================================================== cyclic_iterator
// container kinds: 0 = std::vector<int>, 1 = fcppt::array (via vector of fixed size is not possible) -> pointer, 2 = std::list
// The boundary is the sub-range [2, 2+L) of a container of L+4 elements 10,11,12,...
constexpr i64 cyc_ops = 11;
char const *const cyc_op_names[] = {"it += n", "it -= -n", "it + n", "it - (-n)", "n + it", "it[n]", "std::advance(it, n)", "|n| times ++it / --it", "|n| times it++ / it--", "std::next / std::prev", "++ / -- on std::list"};

i64 ref_cyclic(i64 len, i64 start, i64 n)
{
  // |n| single steps forward (n > 0) or backward (n < 0), wrapping at the ends of the boundary
  i64 idx = start;
  for (i64 k = 0; k < (n < 0 ? -n : n); ++k)
  {
    if (n > 0) idx = idx + 1 == len ? 0 : idx + 1;
    else idx = idx == 0 ? len - 1 : idx - 1;
  }
  return idx;
}
template <typename Cont>
void cyc_case_in(Cont &cont, i64 len, i64 start, i64 n, i64 op)
{
  using base_it = typename Cont::const_iterator;
  using cyc = fcppt::cyclic_iterator<base_it>;
  base_it const first = std::next(cont.cbegin(), 2), last = std::next(first, len);
  cyc it(std::next(first, start), typename cyc::boundary{first, last});
  i64 const an = n < 0 ? -n : n;
  i64 const want = ref_cyclic(len, start, n);
  auto const ctx = [&] { return std::string(cyc_op_names[op]) + ", boundary length " + str(len) + ", start " + str(start) + ", n = " + str(n); };
  auto const inside = [&](cyc const &c) {
    // the underlying iterator must be one of first, first+1, ..., last-1
    base_it p = first;
    for (i64 k = 0; k < len; ++k, ++p)
      if (p == c.get()) return k;
    return i64{-1};
  };
  cyc res = it;
  bool stepwise_ok = true;
  if constexpr (std::is_same_v<typename std::iterator_traits<base_it>::iterator_category, std::random_access_iterator_tag>)
  {
    using D = typename cyc::difference_type;
    switch (op)
    {
    case 0: res += static_cast<D>(n); break;
    case 1: res -= static_cast<D>(-n); break;
    case 2: res = it + static_cast<D>(n); break;
    case 3: res = it - static_cast<D>(-n); break;
    case 4: res = static_cast<D>(n) + it; break;
    case 5:
    {
      int const &v = it[static_cast<D>(n)];
      if (v != 12 + want) fail("cyclic_iterator|operator[]|value", ctx() + ": it[n] = " + str(v) + ", expected " + str(12 + want));
      res += static_cast<D>(n);
      break;
    }
    case 6: std::advance(res, static_cast<D>(n)); break;
    case 9: res = n >= 0 ? std::next(it, static_cast<D>(n)) : std::prev(it, static_cast<D>(-n)); break;
    default: break;
    }
  }
  if (op == 7 || op == 10)
    for (i64 k = 0; k < an; ++k)
    {
      if (n > 0) ++res;
      else --res;
      if (stepwise_ok && inside(res) < 0)
      {
        stepwise_ok = false;
        fail("cyclic_iterator|left-boundary|single steps", ctx() + ": after " + str(k + 1) + " steps the iterator is outside [first, last)");
        return;
      }
    }
  if (op == 8)
    for (i64 k = 0; k < an; ++k)
    {
      cyc const before = res;
      cyc const old = n > 0 ? res++ : res--;
      // it++ / it-- return the position before the step (standard iterator requirement)
      if (!(old == before) || inside(old) != inside(before)) { fail(n > 0 ? "cyclic_iterator|post-increment|returns-new-position" : "cyclic_iterator|post-decrement|returns-new-position", ctx() + ": post-step " + str(k + 1) + " did not return the previous position"); return; }
      if (inside(res) < 0) { fail("cyclic_iterator|left-boundary|single steps", ctx() + ": after " + str(k + 1) + " post-steps the iterator is outside [first, last)"); return; }
    }
  i64 const at = inside(res);
  char const *const cl = n < 0 ? "n<0" : an >= len ? "n>=length" : "0<=n<length";
  if (at < 0) { fail(std::string("cyclic_iterator|left-boundary|") + cl, ctx() + ": the result is outside [first, last)"); return; }
  if (at != want) fail(std::string("cyclic_iterator|position|") + cl, ctx() + ": result at index " + str(at) + " of the boundary, |n| single steps lead to index " + str(want));
  else if (*res != 12 + want) fail("cyclic_iterator|dereference", ctx() + ": *it = " + str(*res));
  if (!(res == cyc(std::next(first, want), typename cyc::boundary{first, last}))) fail("cyclic_iterator|operator==", ctx());
  // the boundary is unchanged
  if (fcppt::tuple::get<0>(res.get_boundary()) != first || fcppt::tuple::get<1>(res.get_boundary()) != last) fail("cyclic_iterator|boundary-changed", ctx());
}
void cyc_case(i64 len, i64 start, i64 n, i64 op)
{
  count(n < 0 || n >= len || start + n >= len || start == 0 || start == len - 1);
  if (op == 10)
  {
    std::list<int> l;
    for (i64 k = 0; k < len + 4; ++k) l.push_back(static_cast<int>(10 + k));
    cyc_case_in(l, len, start, n, op);
  }
  else
  {
    std::vector<int> v;
    for (i64 k = 0; k < len + 4; ++k) v.push_back(static_cast<int>(10 + k));
    cyc_case_in(v, len, start, n, op);
  }
}
void cyc_decode(Ints const &c, i64 &len, i64 &start, i64 &n, i64 &op)
{
  len = clampi(geti(c, 0), 1, 8);
  start = clampi(geti(c, 1), 0, len - 1);
  n = clampi(geti(c, 2), -60, 60);
  op = clampi(geti(c, 3), 0, cyc_ops - 1);
}
Reg const r_cyc{
    "cyclic_iterator", Kind::exhaustive,
    "a boundary of length 1..6 inside a larger container, a start offset, a step count n in [-20,20] (thorough: length <= 8, |n| <= 60) and one of 11 ways of moving: n < 0, n >= length, the walk passes the end of the boundary, or the start is the first/last element",
    [] {
      i64 const maxlen = opts().thorough() ? 8 : 6, maxn = opts().thorough() ? 60 : 20;
      for (i64 len = 1; len <= maxlen; ++len)
        for (i64 start = 0; start < len; ++start)
          for (i64 n = -maxn; n <= maxn; ++n)
            for (i64 op = 0; op < cyc_ops; ++op)
            {
              cur4(len, start, n, op);
              cyc_case(len, start, n, op);
            }
    },
    [](Ints const &c) { i64 len, start, n, op; cyc_decode(c, len, start, n, op); cyc_case(len, start, n, op); },
    [](Ints const &c) { i64 len, start, n, op; cyc_decode(c, len, start, n, op); return std::string("cyclic_iterator ") + cyc_op_names[op] + ": length " + std::to_string(len) + " start " + std::to_string(start) + " n " + std::to_string(n); }};

// =================================================================== spiral range
template <typename T>
void spiral_case(i64 ox, i64 oy, i64 d)
{
  using pos = fcppt::container::grid::pos<T, 2>;
  count(d == 0 || ox == 0 || oy == 0 || d >= 5);
  // the Manhattan ball, by scanning a square
  std::vector<std::pair<i64, i64>> ball;
  for (i64 y = oy - d - 1; y <= oy + d + 1; ++y)
    for (i64 x = ox - d - 1; x <= ox + d + 1; ++x)
      if ((x < ox ? ox - x : x - ox) + (y < oy ? oy - y : y - oy) <= d) ball.emplace_back(x, y);
  auto const r = fcppt::container::grid::make_spiral_range(pos(static_cast<T>(ox), static_cast<T>(oy)), static_cast<T>(d));
  std::vector<std::pair<i64, i64>> got;
  auto const en = r.end();
  auto const ctx = [&] { return "spiral around (" + str(ox) + "," + str(oy) + ") distance " + str(d); };
  i64 prev = 0;
  for (auto it = r.begin(); it != en; ++it)
  {
    if (got.size() == ball.size()) { fail("grid::make_spiral_range|too-long", ctx() + ": more than " + str(ball.size()) + " positions"); return; }
    pos const p = *it;
    i64 const x = static_cast<i64>(p.x()), y = static_cast<i64>(p.y());
    i64 const dist = (x < ox ? ox - x : x - ox) + (y < oy ? oy - y : y - oy);
    if (dist > d) { fail("grid::make_spiral_range|outside-distance", ctx() + ": element " + str(got.size()) + " is (" + str(x) + "," + str(y) + ") at distance " + str(dist)); return; }
    if (dist < prev) { fail("grid::make_spiral_range|distance-decreases", ctx() + ": element " + str(got.size()) + " is (" + str(x) + "," + str(y) + ") at distance " + str(dist) + " after distance " + str(prev)); return; }
    prev = dist;
    if (std::find(got.begin(), got.end(), std::make_pair(x, y)) != got.end()) { fail("grid::make_spiral_range|visited-twice", ctx() + ": (" + str(x) + "," + str(y) + ") again at element " + str(got.size())); return; }
    got.emplace_back(x, y);
  }
  // all distinct, all inside the ball and as many as the ball has points: exactly the ball
  if (got.size() != ball.size()) fail("grid::make_spiral_range|too-short", ctx() + ": " + str(got.size()) + " positions, the ball has " + str(ball.size()));
  if (!got.empty() && (got.front().first != ox || got.front().second != oy)) fail("grid::make_spiral_range|first-not-origin", ctx());
  post_increment_check(r, static_cast<long long>(ball.size()) + 1, "grid::make_spiral_range", ctx(), [](pos const &q) { return std::make_pair(static_cast<i64>(q.x()), static_cast<i64>(q.y())); });
}
void spiral_one(Ints const &c)
{
  i64 const ox = clampi(geti(c, 1), -6, 6), oy = clampi(geti(c, 2), -6, 6), d = clampi(geti(c, 3), 0, 14);
  switch (clampi(geti(c, 0), 0, 2))
  {
  case 0: spiral_case<int>(ox, oy, d); break;
  case 1: spiral_case<long>(ox, oy, d); break;
  default: spiral_case<long long>(ox, oy, d); break;
  }
}
Reg const r_spiral{
    "spiral_range", Kind::exhaustive,
    "a coordinate type (int, long, long long), an origin in [-3,3]^2 and a distance 0..6 (thorough: [-5,5]^2, 0..12): distance 0 or >= 5, or the origin on an axis",
    [] {
      i64 const o = opts().thorough() ? 5 : 3, md = opts().thorough() ? 12 : 6;
      for (i64 t = 0; t < 3; ++t)
        for (i64 ox = -o; ox <= o; ++ox)
          for (i64 oy = -o; oy <= o; ++oy)
            for (i64 d = 0; d <= md; ++d)
            {
              cur4(t, ox, oy, d);
              spiral_one({t, ox, oy, d});
            }
    },
    spiral_one,
    [](Ints const &c) { return "make_spiral_range type " + std::to_string(clampi(geti(c, 0), 0, 2)) + " origin (" + std::to_string(clampi(geti(c, 1), -6, 6)) + "," + std::to_string(clampi(geti(c, 2), -6, 6)) + ") distance " + std::to_string(clampi(geti(c, 3), 0, 14)); }};

// =================================================================== neighbour helpers
template <typename T>
void neighbour_case(i64 x, i64 y)
{
  using pos = fcppt::container::grid::pos<T, 2>;
  count(x == 0 || y == 0 || x == 1 || y == 1);
  pos const p(static_cast<T>(x), static_cast<T>(y));
  std::vector<std::pair<i64, i64>> m8, n4, g8, g4;
  for (i64 dy = -1; dy <= 1; ++dy)
    for (i64 dx = -1; dx <= 1; ++dx)
    {
      if (dx == 0 && dy == 0) continue;
      m8.emplace_back(x + dx, y + dy);
      if (dx == 0 || dy == 0) n4.emplace_back(x + dx, y + dy);
    }
  auto const fm = fcppt::container::grid::moore_neighbors(p);
  auto const fn = fcppt::container::grid::neumann_neighbors(p);
  if constexpr (std::is_unsigned_v<T>)
  {
    if (x == 0 || y == 0)
    {
      // Reading: "no range checking is performed" - for an unsigned coordinate 0 the neighbour
      // "0 - 1" is not a position, whatever value stands for it. Demanded (weak): what remains after
      // the range check against the grid [0,x+2) x [0,y+2) are exactly the true neighbours with
      // non-negative coordinates, each once (in particular never the centre itself).
      auto const keep = [&](std::vector<std::pair<i64, i64>> &v) { v.erase(std::remove_if(v.begin(), v.end(), [](auto const &q) { return q.first < 0 || q.second < 0; }), v.end()); };
      keep(m8);
      keep(n4);
      auto const inside = [&](auto const &q) { return static_cast<unsigned long long>(q.x()) <= static_cast<unsigned long long>(x + 1) && static_cast<unsigned long long>(q.y()) <= static_cast<unsigned long long>(y + 1); };
      for (auto const &q : fm) if (inside(q)) g8.emplace_back(static_cast<i64>(q.x()), static_cast<i64>(q.y()));
      for (auto const &q : fn) if (inside(q)) g4.emplace_back(static_cast<i64>(q.x()), static_cast<i64>(q.y()));
      std::sort(m8.begin(), m8.end()); std::sort(n4.begin(), n4.end()); std::sort(g8.begin(), g8.end()); std::sort(g4.begin(), g4.end());
      if (g8 != m8) fail("grid::moore_neighbors|in-range-part|unsigned-zero", "moore_neighbors(" + str(x) + "," + str(y) + ") of an unsigned position: the elements inside [0," + str(x + 2) + ")x[0," + str(y + 2) + ") are not exactly the surrounding positions with non-negative coordinates");
      if (g4 != n4) fail("grid::neumann_neighbors|in-range-part|unsigned-zero", "neumann_neighbors(" + str(x) + "," + str(y) + ") of an unsigned position: the elements inside [0," + str(x + 2) + ")x[0," + str(y + 2) + ") are not exactly the adjacent positions with non-negative coordinates");
      return;
    }
  }
  for (auto const &q : fm) g8.emplace_back(static_cast<i64>(q.x()), static_cast<i64>(q.y()));
  for (auto const &q : fn) g4.emplace_back(static_cast<i64>(q.x()), static_cast<i64>(q.y()));
  std::sort(m8.begin(), m8.end()); std::sort(n4.begin(), n4.end()); std::sort(g8.begin(), g8.end()); std::sort(g4.begin(), g4.end());
  if (g8 != m8) fail("grid::moore_neighbors|multiset", "moore_neighbors(" + str(x) + "," + str(y) + ") are not the 8 surrounding positions");
  if (g4 != n4) fail("grid::neumann_neighbors|multiset", "neumann_neighbors(" + str(x) + "," + str(y) + ") are not the 4 adjacent positions");
}
void neighbour_one(Ints const &c)
{
  // types 3 and 4: 64-bit coordinates far outside the range of int (2^33 + x, 2^40 + y)
  if (geti(c, 0) == 3 || geti(c, 0) == 4)
  {
    i64 const x = clampi(geti(c, 1), -4, 4), y = clampi(geti(c, 2), -4, 4);
    if (geti(c, 0) == 3) neighbour_case<std::int64_t>((i64{1} << 33) + x, -(i64{1} << 40) + y);
    else neighbour_case<std::uint64_t>((i64{1} << 40) + x, (i64{1} << 33) + y);
    return;
  }
  i64 const t = clampi(geti(c, 0), 0, 2);
  // unsigned positions: at 0 only the in-range part of the result is demanded (see neighbour_case)
  i64 const lo = t == 2 ? 0 : -4, hi = t == 2 ? 9 : 4;
  i64 const x = clampi(geti(c, 1), lo, hi), y = clampi(geti(c, 2), lo, hi);
  if (t == 0) neighbour_case<int>(x, y);
  else if (t == 1) neighbour_case<std::ptrdiff_t>(x, y);
  else neighbour_case<std::size_t>(x, y);
}
Reg const r_neigh{
    "moore_neumann_neighbors", Kind::exhaustive, "a position in [-4,4]^2 (int, ptrdiff_t) or [0,9]^2 (size_t): a coordinate equal to 0 or 1",
    [] {
      for (i64 t = 3; t < 5; ++t)
        for (i64 x = -2; x <= 2; ++x)
          for (i64 y = -2; y <= 2; ++y)
          {
            cur3(t, x, y);
            neighbour_one({t, x, y});
          }
      for (i64 t = 0; t < 3; ++t)
        for (i64 x = (t == 2 ? 0 : -4); x <= (t == 2 ? 9 : 4); ++x)
          for (i64 y = (t == 2 ? 0 : -4); y <= (t == 2 ? 9 : 4); ++y)
          {
            cur3(t, x, y);
            neighbour_one({t, x, y});
          }
    },
    neighbour_one,
    [](Ints const &c) { return "moore/neumann_neighbors type " + std::to_string(clampi(geti(c, 0), 0, 4)) + " (0 int, 1 ptrdiff_t, 2 size_t, 3 int64 at 2^33/-2^40 + offset, 4 uint64 at 2^40/2^33 + offset) at (" + std::to_string(geti(c, 1)) + "," + std::to_string(geti(c, 2)) + ")"; }};

// =================================================================== iterator::range, adapt_range, range::size
template <typename Range>
bool same_seq(Range const &r, std::vector<int> const &want)
{
  std::size_t k = 0;
  auto const en = r.end();
  for (auto it = r.begin(); it != en; ++it, ++k)
    if (k >= want.size() || *it != want[k]) return false;
  return k == want.size();
}
template <typename Cont>
void itrange_case_in(i64 len, i64 i, i64 j, char const *cn)
{
  Cont c;
  std::vector<int> all, sub;
  for (i64 k = 0; k < len; ++k)
  {
    c.push_back(static_cast<int>(50 + 3 * k));
    all.push_back(static_cast<int>(50 + 3 * k));
    if (k >= i && k < j) sub.push_back(static_cast<int>(50 + 3 * k));
  }
  auto const ctx = [&] { return std::string(cn) + " of length " + str(len) + ", sub-range [" + str(i) + "," + str(j) + ")"; };
  Cont const &cc = c;
  auto const bi = std::next(c.begin(), i), bj = std::next(c.begin(), j);
  {
    auto const r = fcppt::iterator::make_range(bi, bj);
    if (r.begin() != bi || r.end() != bj) fail("iterator::make_range|begin-end", ctx());
    if (!same_seq(r, sub)) fail("iterator::make_range|sequence", ctx());
    if (static_cast<i64>(fcppt::range::size(r)) != j - i) fail("range::size|iterator range", ctx() + ": size = " + str(fcppt::range::size(r)));
    fcppt::iterator::range<typename Cont::iterator> const r2(bi, bj);
    if (r2.begin() != bi || r2.end() != bj || !same_seq(r2, sub)) fail("iterator::range|ctor", ctx());
  }
  {
    auto const r = fcppt::iterator::make_range(std::next(cc.begin(), i), std::next(cc.begin(), j));
    VERIF_TYPE_FACT((std::is_same_v<typename std::remove_cvref_t<decltype(r)>::iterator, typename Cont::const_iterator>), "std::is_same_v<typename std::remove_cvref_t<decltype(r)>::iterator, typename Cont::const_iterator>");
    if (!same_seq(r, sub)) fail("iterator::make_range|sequence|const", ctx());
  }
  {
    auto const r = fcppt::iterator::adapt_range(c);
    VERIF_TYPE_FACT((std::is_same_v<typename std::remove_cvref_t<decltype(r)>::iterator, typename Cont::iterator>), "std::is_same_v<typename std::remove_cvref_t<decltype(r)>::iterator, typename Cont::iterator>");
    if (r.begin() != c.begin() || r.end() != c.end()) fail("iterator::adapt_range|begin-end", ctx());
    if (!same_seq(r, all)) fail("iterator::adapt_range|sequence", ctx());
    if (static_cast<i64>(fcppt::range::size(r)) != len) fail("range::size|adapted range", ctx());
    auto const cr = fcppt::iterator::adapt_range(cc);
    VERIF_TYPE_FACT((std::is_same_v<typename std::remove_cvref_t<decltype(cr)>::iterator, typename Cont::const_iterator>), "std::is_same_v<typename std::remove_cvref_t<decltype(cr)>::iterator, typename Cont::const_iterator>");
    if (cr.begin() != cc.begin() || cr.end() != cc.end() || !same_seq(cr, all)) fail("iterator::adapt_range|const", ctx());
    // adapting the sub-range object again gives the sub-range
    auto sr = fcppt::iterator::make_range(bi, bj);
    auto const rr = fcppt::iterator::adapt_range(sr);
    if (!same_seq(rr, sub)) fail("iterator::adapt_range|of-iterator-range", ctx());
  }
  if (static_cast<i64>(fcppt::range::size(cc)) != len) fail("range::size|container", ctx() + ": size = " + str(fcppt::range::size(cc)));
  // range::size of an int range with the same ends
  if (static_cast<i64>(fcppt::range::size(fcppt::make_int_range(static_cast<int>(i), static_cast<int>(j)))) != j - i) fail("range::size|int_range", ctx());
}
// iterator::range over the library's own cyclic_iterator: [begin, end) is walked by ++ until it
// EQUALS end - for a cyclic iterator that may wrap around the boundary, and its operator< (a
// comparison of the underlying positions) says nothing about reachability. The range stores exactly
// the two iterators it was given.
void itrange_cyclic_case(i64 len, i64 i, i64 j)
{
  if (len == 0) return;
  std::vector<int> v;
  for (i64 k = 0; k < len; ++k) v.push_back(static_cast<int>(50 + 3 * k));
  using base_it = std::vector<int>::const_iterator;
  using cyc = fcppt::cyclic_iterator<base_it>;
  typename cyc::boundary const bound{v.cbegin(), v.cend()};
  i64 const bi = i % len, bj = j % len;
  cyc const b(std::next(v.cbegin(), bi), bound), e(std::next(v.cbegin(), bj), bound);
  std::vector<int> want;
  for (i64 k = bi; k != bj; k = (k + 1) % len) want.push_back(v[static_cast<std::size_t>(k)]);
  auto const ctx = [&] { return "cyclic iterators over a vector of length " + str(len) + ", from index " + str(bi) + " to index " + str(bj) + (bj < bi ? " (wrapping)" : ""); };
  auto const r = fcppt::iterator::make_range(b, e);
  if (!(r.begin() == b) || !(r.end() == e)) fail("iterator::make_range|begin-end|cyclic_iterator", ctx() + ": the range does not hold the iterators it was given");
  std::vector<int> got;
  std::size_t guard = 0;
  for (auto it = r.begin(); !(it == r.end()) && guard < 64; ++it, ++guard) got.push_back(*it);
  if (got != want) fail("iterator::make_range|sequence|cyclic_iterator", ctx() + ": " + str(got.size()) + " elements, expected " + str(want.size()));
}
// iterator::range over genuine single-pass iterators (std::istream_iterator): every element is
// delivered - to a plain walk and to fcppt::algorithm::map (which asks a range for its size first
// if it has one: a range must not consume single-pass iterators to answer that)
void itrange_single_pass_case(i64 len)
{
  std::string text;
  std::vector<int> want;
  for (i64 k = 0; k < len; ++k)
  {
    text += std::to_string(50 + 3 * k) + " ";
    want.push_back(static_cast<int>(50 + 3 * k));
  }
  {
    std::istringstream in(text);
    auto const r = fcppt::iterator::make_range(std::istream_iterator<int>(in), std::istream_iterator<int>());
    std::vector<int> got;
    for (auto it = r.begin(); it != r.end(); ++it) got.push_back(*it);
    if (got != want) fail("iterator::make_range|sequence|single-pass", "a range of istream_iterators over " + str(len) + " numbers delivered " + str(got.size()));
  }
  {
    std::istringstream in(text);
    auto const r = fcppt::iterator::make_range(std::istream_iterator<int>(in), std::istream_iterator<int>());
    std::vector<int> const got = fcppt::algorithm::map<std::vector<int>>(r, [](int const x) { return x; });
    if (got != want) fail("iterator::make_range|sequence|single-pass-through-algorithm-map", "algorithm::map over a range of istream_iterators over " + str(len) + " numbers delivered " + str(got.size()) + " elements");
  }
}
void itrange_one(Ints const &c)
{
  i64 const len = clampi(geti(c, 1), 0, 8), i = clampi(geti(c, 2), 0, len), j = clampi(geti(c, 3), i, len);
  count(i == j || i == 0 || j == len);
  if ((geti(c, 0) & 1) == 0)
  {
    itrange_cyclic_case(len, i, j);
    itrange_cyclic_case(len, j, i); // the wrapping direction
    if (i == 0 && j == len) itrange_single_pass_case(len);
  }
  if (geti(c, 0) & 1) itrange_case_in<std::list<int>>(len, i, j, "std::list");
  else itrange_case_in<std::vector<int>>(len, i, j, "std::vector");
}
Reg const r_itrange{
    "iterator_range_adapt_size", Kind::exhaustive, "a vector or list of length 0..8 and a sub-range [i,j), i <= j: empty, or touching the first or last element",
    [] {
      for (i64 k = 0; k < 2; ++k)
        for (i64 len = 0; len <= 8; ++len)
          for (i64 i = 0; i <= len; ++i)
            for (i64 j = i; j <= len; ++j)
            {
              cur4(k, len, i, j);
              itrange_one({k, len, i, j});
            }
    },
    itrange_one,
    [](Ints const &c) { return std::string(geti(c, 0) & 1 ? "list" : "vector") + " length " + std::to_string(geti(c, 1)) + " sub-range [" + std::to_string(geti(c, 2)) + "," + std::to_string(geti(c, 3)) + ")"; }};
}
