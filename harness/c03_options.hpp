// C03 - command-line parsing accounts for every argument and matches its reference.
// Dual builders construct BOTH the fcppt parser and a run-time description of it from one
// expression; oracle (1) a reference interpreter over the description (left-to-right consumption:
// a state is the list of unconsumed tokens), oracle (2) the model-free conservation invariant: the
// multiset of tokens reconstructed from a success record equals the input multiset.
#ifndef VERIF_C03_OPTIONS_HPP
#define VERIF_C03_OPTIONS_HPP

#include "verif.hpp"

#include <fcppt/args_vector.hpp>
#include <fcppt/make_cref.hpp>
#include <fcppt/strong_typedef_impl.hpp>
#include <fcppt/tag.hpp>
#include <fcppt/text.hpp>
#include <fcppt/unit.hpp>
#include <fcppt/algorithm/loop.hpp>
#include <fcppt/algorithm/loop_break_mpl.hpp>
#include <fcppt/assert/unreachable.hpp>
#include <fcppt/either/match.hpp>
#include <fcppt/enum/input.hpp>
#include <fcppt/enum/output.hpp>
#include <fcppt/enum/to_string_case.hpp>
#include <fcppt/enum/to_string_impl_fwd.hpp>
#include <fcppt/mpl/size_type.hpp>
#include <fcppt/mpl/list/at.hpp>
#include <fcppt/mpl/list/indices.hpp>
#include <fcppt/mpl/list/size.hpp>
#include <fcppt/optional/maybe.hpp>
#include <fcppt/optional/object.hpp>
#include <fcppt/options/apply.hpp>
#include <fcppt/options/argument.hpp>
#include <fcppt/options/default_help_switch.hpp>
#include <fcppt/options/duplicate_names.hpp>
#include <fcppt/options/error.hpp>
#include <fcppt/options/exception.hpp>
#include <fcppt/options/flag.hpp>
#include <fcppt/options/help_text.hpp>
#include <fcppt/options/left.hpp>
#include <fcppt/options/long_name.hpp>
#include <fcppt/options/make_commands.hpp>
#include <fcppt/options/make_default_value.hpp>
#include <fcppt/options/make_many.hpp>
#include <fcppt/options/make_optional.hpp>
#include <fcppt/options/make_sub_command.hpp>
#include <fcppt/options/make_sum.hpp>
#include <fcppt/options/no_default_value.hpp>
#include <fcppt/options/option.hpp>
#include <fcppt/options/optional_help_text.hpp>
#include <fcppt/options/optional_short_name.hpp>
#include <fcppt/options/options_label.hpp>
#include <fcppt/options/parse.hpp>
#include <fcppt/options/parse_help.hpp>
#include <fcppt/options/pretty_type_enum.hpp>
#include <fcppt/options/right.hpp>
#include <fcppt/options/short_name.hpp>
#include <fcppt/options/sub_command_label.hpp>
#include <fcppt/options/switch.hpp>
#include <fcppt/options/unit_switch.hpp>
#include <fcppt/record/element_to_label.hpp>
#include <fcppt/record/element_vector.hpp>
#include <fcppt/record/get.hpp>
#include <fcppt/record/make_label.hpp>
#include <fcppt/record/object.hpp>
#include <fcppt/variant/apply.hpp>
#include <fcppt/variant/match.hpp>
#include <fcppt/variant/object.hpp>
#include <fcppt/options/unit.hpp>

#include <algorithm>
#include <functional>
#include <iosfwd>
#include <map>
#include <memory>
#include <optional>
#include <set>
#include <sstream>
#include <string>
#include <vector>

namespace c03
{
enum class color
{
  red,
  green,
  blue,
  fcppt_maximum = blue
};
}
namespace fcppt::enum_
{
template <>
struct to_string_impl<c03::color>
{
  static std::string_view get(c03::color const v)
  {
    switch (v)
    {
      FCPPT_ENUM_TO_STRING_CASE(c03::color, red);
      FCPPT_ENUM_TO_STRING_CASE(c03::color, green);
      FCPPT_ENUM_TO_STRING_CASE(c03::color, blue);
    }
    FCPPT_ASSERT_UNREACHABLE;
  }
};
}
namespace c03
{
inline std::ostream &operator<<(std::ostream &s, color const c) { return fcppt::enum_::output(s, c); }
inline std::istream &operator>>(std::istream &s, color &c) { return fcppt::enum_::input(s, c); }

using namespace verif;
namespace fo = fcppt::options;

template <typename L>
struct lname;
#define C03_LABEL(n)                                   \
  FCPPT_RECORD_MAKE_LABEL(n);                          \
  template <>                                          \
  struct lname<n>                                      \
  {                                                    \
    static std::string get() { return #n; }            \
  }
C03_LABEL(la);
C03_LABEL(lb);
C03_LABEL(lc);
C03_LABEL(ld);
C03_LABEL(le);
C03_LABEL(t1);
C03_LABEL(t2);
C03_LABEL(t3);
template <>
struct lname<fo::options_label>
{
  static std::string get() { return "options"; }
};
template <>
struct lname<fo::sub_command_label>
{
  static std::string get() { return "sub"; }
};

// ------------------------------------------------------------------ rendering of fcppt results
inline std::string render(int v) { return std::to_string(v); }
inline std::string render(unsigned v) { return std::to_string(v) + "u"; }
inline std::string render(bool v) { return v ? "true" : "false"; }
inline std::string render(std::string const &v) { return "'" + v + "'"; }
inline std::string render(color c) { return std::string("#") + std::string{fcppt::enum_::to_string(c)}; }
inline std::string render(fcppt::unit) { return "()"; }
template <typename T>
std::string render(fcppt::optional::object<T> const &o);
template <typename T>
std::string render(std::vector<T> const &v);
template <typename... E>
std::string render(fcppt::record::object<E...> const &r);
template <typename T>
std::string render(fo::left<T> const &l) { return "L" + render(l.get()); }
template <typename T>
std::string render(fo::right<T> const &l) { return "R" + render(l.get()); }
template <typename... Ts>
std::string render(fcppt::variant::object<Ts...> const &v)
{
  return fcppt::variant::apply([](auto const &x) { return render(x); }, v);
}
template <typename T>
std::string render(fcppt::optional::object<T> const &o)
{
  return fcppt::optional::maybe(o, [] { return std::string("N"); }, [](T const &x) { return "J" + render(x); });
}
template <typename T>
std::string render(std::vector<T> const &v)
{
  std::string r = "[";
  for (auto const &e : v) r += render(e) + ";";
  return r + "]";
}
template <typename... E>
std::string render(fcppt::record::object<E...> const &r)
{
  std::map<std::string, std::string> m;
  using elems = fcppt::record::element_vector<fcppt::record::object<E...>>;
  fcppt::algorithm::loop(fcppt::mpl::list::indices<elems>{}, [&]<std::size_t I>(fcppt::tag<fcppt::mpl::size_type<I>>) {
    using label = fcppt::record::element_to_label<fcppt::mpl::list::at<elems, fcppt::mpl::size_type<I>>>;
    m[lname<label>::get()] = render(fcppt::record::get<label>(r));
  });
  std::string s = "{";
  bool first = true;
  for (auto const &kv : m)
  {
    if (!first) s += ",";
    first = false;
    s += kv.first + "=" + kv.second;
  }
  return s + "}";
}

// ------------------------------------------------------------------ description + reference interpreter
struct desc;
using dp = std::shared_ptr<desc>;
struct desc
{
  enum K { ARG, FLAG, OPTION, UNIT, USWITCH, OPTIONAL, MANY, PRODUCT, SUM, COMMANDS } k;
  std::string label, lng, sht;
  int type = 0; // 0 int, 1 string, 2 unsigned, 3 color
  std::string act, inact;
  bool has_def = false;
  std::string def;
  std::vector<dp> c;
  std::vector<std::string> cmd_names, cmd_tags;
};
using rec = std::map<std::string, std::string>;
using args = std::vector<std::string>;
// tokens the result accounts for (conservation invariant), in normalised form
using tokens = std::vector<std::string>;
struct mres
{
  enum { OK, MISSING, OTHER } k;
  rec r;
  args st;
  tokens used;
};
using optnames = std::set<std::pair<std::string, bool>>; // (name, is_short)

inline std::string rrender(rec const &r)
{
  std::string s = "{";
  bool first = true;
  for (auto const &kv : r)
  {
    if (!first) s += ",";
    first = false;
    s += kv.first + "=" + kv.second;
  }
  return s + "}";
}
inline optnames option_names(dp const &d)
{
  optnames r;
  switch (d->k)
  {
  case desc::OPTION:
    r.insert({d->lng, false});
    if (!d->sht.empty()) r.insert({d->sht, true});
    break;
  case desc::OPTIONAL: case desc::MANY: case desc::PRODUCT: case desc::SUM:
    for (auto &c : d->c)
    {
      auto x = option_names(c);
      r.insert(x.begin(), x.end());
    }
    break;
  default: break;
  }
  return r;
}
inline std::vector<std::string> labels(dp const &d)
{
  switch (d->k)
  {
  case desc::OPTIONAL: case desc::MANY: return labels(d->c[0]);
  case desc::PRODUCT:
  {
    auto a = labels(d->c[0]);
    auto b = labels(d->c[1]);
    a.insert(a.end(), b.begin(), b.end());
    return a;
  }
  case desc::COMMANDS: return {"options", "sub"};
  default: return {d->label};
  }
}
struct flaginfo
{
  bool is_flag;
  bool is_short;
  std::string name;
};
// a token that starts with a dash is a flag: "--name" long, "-name" short ("-" is a short flag with the empty name)
inline flaginfo is_flag(std::string const &t)
{
  if (t.empty() || t[0] != '-') return {false, false, ""};
  if (t.size() >= 2 && t[1] == '-') return {true, false, t.substr(2)};
  return {true, true, t.substr(1)};
}
// the first token that is neither a flag nor the value following a known option name
inline std::optional<std::size_t> next_arg(args const &a, optnames const &ctx)
{
  for (std::size_t i = 0; i < a.size();)
  {
    auto f = is_flag(a[i]);
    if (f.is_flag)
    {
      ++i;
      if (i < a.size() && ctx.count({f.name, f.is_short})) ++i;
      continue;
    }
    return i;
  }
  return std::nullopt;
}
// conversion of a token to a value of the element type (formatted stream extraction of the whole token)
inline std::optional<std::string> conv(int type, std::string const &t)
{
  if (type == 1)
  {
    // formatted extraction of a std::string: must consume the whole token, a token with blanks or an empty token fails
    std::istringstream s(t);
    std::string v;
    if (!(s >> v)) return std::nullopt;
    if (!s.eof()) { s.peek(); if (!s.eof()) return std::nullopt; }
    if (v != t) return std::nullopt;
    return "'" + v + "'";
  }
  if (type == 3)
  {
    for (char const *n : {"red", "green", "blue"})
      if (t == n) return "#" + t;
    return std::nullopt;
  }
  std::istringstream s(t);
  if (type == 0)
  {
    int v = 0;
    if (!(s >> v)) return std::nullopt;
    if (s.peek() != std::char_traits<char>::eof()) return std::nullopt;
    return std::to_string(v);
  }
  unsigned v = 0;
  if (!(s >> v)) return std::nullopt;
  if (s.peek() != std::char_traits<char>::eof()) return std::nullopt;
  return std::to_string(v) + "u";
}
inline bool take(args &a, std::string const &tok)
{
  auto it = std::find(a.begin(), a.end(), tok);
  if (it == a.end()) return false;
  a.erase(it);
  return true;
}
// option lookup: 0 none, 1 value, 2 missing argument
inline int take_opt(args &a, std::string const &tok, std::string &val)
{
  auto it = std::find(a.begin(), a.end(), tok);
  if (it == a.end()) return 0;
  if (it + 1 == a.end()) return 2;
  val = *(it + 1);
  a.erase(it, it + 2);
  return 1;
}

struct interp
{
  // non-trivial rule bookkeeping
  bool consumed_by_later_parser{false}, option_like_value{false}, repeated_flag{false};

  mres run(dp const &d, args st, optnames const &ctx, bool first)
  {
    switch (d->k)
    {
    case desc::ARG:
    {
      auto i = next_arg(st, ctx);
      if (!i) return {mres::MISSING, {}, st, {}};
      std::string const t = st[*i];
      st.erase(st.begin() + static_cast<long>(*i));
      auto v = conv(d->type, t);
      if (!v) return {mres::OTHER, {}, {}, {}};
      if (!first) consumed_by_later_parser = true;
      return {mres::OK, {{d->label, *v}}, st, {t}};
    }
    case desc::FLAG:
    case desc::USWITCH:
    {
      bool const l = take(st, "--" + d->lng);
      bool s = false;
      if (!d->sht.empty()) s = take(st, "-" + d->sht);
      // Reading (mirrors the implementation, undocumented): giving both the long and the short form is an error
      if (l && s) return {mres::OTHER, {}, {}, {}};
      bool const f = l || s;
      if (f && std::find(st.begin(), st.end(), l ? "--" + d->lng : "-" + d->sht) != st.end()) repeated_flag = true;
      if (f && !first) consumed_by_later_parser = true;
      tokens used;
      if (f) used.push_back("--" + d->lng);
      if (d->k == desc::USWITCH)
      {
        if (!f) return {mres::MISSING, {}, st, {}};
        return {mres::OK, {{d->label, "()"}}, st, used};
      }
      return {mres::OK, {{d->label, f ? d->act : d->inact}}, st, used};
    }
    case desc::OPTION:
    {
      std::string lv, sv;
      int const l = take_opt(st, "--" + d->lng, lv);
      int s = 0;
      if (!d->sht.empty()) s = take_opt(st, "-" + d->sht, sv);
      if (l == 2 || s == 2) return {mres::OTHER, {}, {}, {}};
      if (l == 1 && s == 1) return {mres::OTHER, {}, {}, {}};
      if (l == 1 || s == 1)
      {
        std::string const &raw = l == 1 ? lv : sv;
        if (!raw.empty() && raw[0] == '-') option_like_value = true;
        auto v = conv(d->type, raw);
        if (!v) return {mres::OTHER, {}, {}, {}};
        if (!first) consumed_by_later_parser = true;
        return {mres::OK, {{d->label, *v}}, st, {"--" + d->lng, raw}};
      }
      if (d->has_def) return {mres::OK, {{d->label, d->def}}, st, {}};
      return {mres::MISSING, {}, st, {}};
    }
    case desc::UNIT:
      if (st.empty()) return {mres::OK, {{d->label, "()"}}, st, {}};
      return {mres::OTHER, {}, {}, {}};
    case desc::OPTIONAL:
    {
      auto r = run(d->c[0], st, ctx, first);
      if (r.k == mres::OK)
      {
        for (auto &kv : r.r) kv.second = "J" + kv.second;
        return r;
      }
      if (r.k == mres::OTHER) return r;
      // a missing error turns into "nothing" and the state stays as it was BEFORE the failed attempt
      rec n;
      for (auto &l : labels(d->c[0])) n[l] = "N";
      return {mres::OK, n, st, {}};
    }
    case desc::MANY:
    {
      std::map<std::string, std::vector<std::string>> acc;
      for (auto &l : labels(d->c[0])) acc[l];
      args cur = st;
      tokens used;
      bool f = first;
      for (;;)
      {
        auto r = run(d->c[0], cur, ctx, f);
        if (r.k == mres::OTHER) return r;
        if (r.k == mres::MISSING) break; // stop; the state stays as it was before the failed attempt
        for (auto &kv : r.r) acc[kv.first].push_back(kv.second);
        used.insert(used.end(), r.used.begin(), r.used.end());
        cur = r.st;
        f = false;
      }
      rec out;
      for (auto &kv : acc)
      {
        std::string s = "[";
        for (auto &e : kv.second) s += e + ";";
        out[kv.first] = s + "]";
      }
      return {mres::OK, out, cur, used};
    }
    case desc::PRODUCT:
    {
      auto a = run(d->c[0], st, ctx, first);
      if (a.k != mres::OK) return a;
      auto b = run(d->c[1], a.st, ctx, false);
      if (b.k != mres::OK) return b;
      for (auto &kv : a.r) b.r[kv.first] = kv.second;
      b.used.insert(b.used.end(), a.used.begin(), a.used.end());
      return b;
    }
    case desc::SUM:
    {
      auto a = run(d->c[0], st, ctx, first);
      if (a.k == mres::OK) return {mres::OK, {{d->label, "L" + rrender(a.r)}}, a.st, a.used};
      auto b = run(d->c[1], st, ctx, first); // the right parser starts from the ORIGINAL state
      if (b.k == mres::OK) return {mres::OK, {{d->label, "R" + rrender(b.r)}}, b.st, b.used};
      if (a.k == mres::MISSING && b.k == mres::MISSING) return {mres::MISSING, {}, b.st, {}};
      return {mres::OTHER, {}, {}, {}};
    }
    case desc::COMMANDS:
    {
      // split at the first positional token (w.r.t. the option names of the common options parser)
      auto on = option_names(d->c[0]);
      auto i = next_arg(st, on);
      if (!i) return {mres::MISSING, {}, st, {}};
      args const firstpart(st.begin(), st.begin() + static_cast<long>(*i));
      std::string const name = st[*i];
      args const second(st.begin() + static_cast<long>(*i) + 1, st.end());
      for (std::size_t k = 0; k < d->cmd_names.size(); ++k)
        if (d->cmd_names[k] == name)
        {
          auto o = to_empty(d->c[0], firstpart, on);
          if (o.k != mres::OK) return {mres::OTHER, {}, {}, {}};
          auto s = run(d->c[k + 1], second, option_names(d->c[k + 1]), false);
          if (s.k != mres::OK) return s.k == mres::MISSING ? mres{mres::OTHER, {}, {}, {}} : s;
          tokens used = o.used;
          used.push_back(name);
          used.insert(used.end(), s.used.begin(), s.used.end());
          return {mres::OK, {{"options", rrender(o.r)}, {"sub", "{" + d->cmd_tags[k] + "=" + rrender(s.r) + "}"}}, s.st, used};
        }
      return {mres::OTHER, {}, {}, {}};
    }
    }
    std::abort();
  }
  mres to_empty(dp const &d, args st, optnames const &ctx)
  {
    auto r = run(d, std::move(st), ctx, true);
    if (r.k != mres::OK) return mres{mres::OTHER, {}, {}, {}};
    if (!r.st.empty()) return mres{mres::OTHER, {}, {}, {}}; // leftover arguments make parse fail
    return r;
  }
};

// all (long,short) aliases of flags and options of a description, for normalising input tokens
inline void aliases(dp const &d, std::map<std::string, std::string> &m)
{
  if ((d->k == desc::FLAG || d->k == desc::USWITCH || d->k == desc::OPTION) && !d->sht.empty()) m["-" + d->sht] = "--" + d->lng;
  for (auto &c : d->c) aliases(c, m);
}

// ------------------------------------------------------------------ dual builders
template <typename P>
struct both
{
  P parser;
  dp d;
};
template <typename T>
struct tinfo;
template <>
struct tinfo<int> { static constexpr int id = 0; };
template <>
struct tinfo<std::string> { static constexpr int id = 1; };
template <>
struct tinfo<unsigned> { static constexpr int id = 2; };
template <>
struct tinfo<color> { static constexpr int id = 3; };
inline fo::optional_short_name osn(std::string const &s) { return s.empty() ? fo::optional_short_name{} : fo::optional_short_name{fo::short_name{std::string{s}}}; }

template <typename L, typename T>
auto arg(std::string n)
{
  auto d = std::make_shared<desc>();
  d->k = desc::ARG; d->label = lname<L>::get(); d->lng = n; d->type = tinfo<T>::id;
  return both<fo::argument<L, T>>{fo::argument<L, T>{fo::long_name{std::move(n)}, fo::optional_help_text{}}, d};
}
template <typename L>
auto sw(std::string s, std::string l)
{
  auto d = std::make_shared<desc>();
  d->k = desc::FLAG; d->label = lname<L>::get(); d->lng = l; d->sht = s; d->act = "true"; d->inact = "false";
  return both<fo::switch_<L>>{fo::switch_<L>{osn(s), fo::long_name{std::move(l)}, fo::optional_help_text{}}, d};
}
template <typename L, typename T>
auto flag(std::string s, std::string l, T a, T i)
{
  auto d = std::make_shared<desc>();
  d->k = desc::FLAG; d->label = lname<L>::get(); d->lng = l; d->sht = s; d->act = render(a); d->inact = render(i);
  using F = fo::flag<L, T>;
  return both<F>{F{osn(s), fo::long_name{std::move(l)}, typename F::active_value{std::move(a)}, typename F::inactive_value{std::move(i)}, fo::optional_help_text{}}, d};
}
template <typename L, typename T>
auto opt(std::string s, std::string l, std::optional<T> def)
{
  auto d = std::make_shared<desc>();
  d->k = desc::OPTION; d->label = lname<L>::get(); d->lng = l; d->sht = s; d->type = tinfo<T>::id; d->has_def = def.has_value();
  if (def) d->def = render(*def);
  using O = fo::option<L, T>;
  return both<O>{O{osn(s), fo::long_name{std::move(l)}, def ? fo::make_default_value(fcppt::optional::object<T>{*def}) : fo::no_default_value<T>(), fo::optional_help_text{}}, d};
}
template <typename L>
auto unit()
{
  auto d = std::make_shared<desc>();
  d->k = desc::UNIT; d->label = lname<L>::get();
  return both<fo::unit<L>>{fo::unit<L>{}, d};
}
template <typename L>
auto usw(std::string s, std::string l)
{
  auto d = std::make_shared<desc>();
  d->k = desc::USWITCH; d->label = lname<L>::get(); d->lng = l; d->sht = s;
  return both<fo::unit_switch<L>>{fo::unit_switch<L>{osn(s), fo::long_name{std::move(l)}}, d};
}
template <typename B>
auto optional(B b)
{
  auto d = std::make_shared<desc>();
  d->k = desc::OPTIONAL; d->c = {b.d};
  auto p = fo::make_optional(std::move(b.parser));
  return both<decltype(p)>{std::move(p), d};
}
template <typename B>
auto many(B b)
{
  auto d = std::make_shared<desc>();
  d->k = desc::MANY; d->c = {b.d};
  auto p = fo::make_many(std::move(b.parser));
  return both<decltype(p)>{std::move(p), d};
}
template <typename A, typename B>
auto prod(A a, B b)
{
  auto d = std::make_shared<desc>();
  d->k = desc::PRODUCT; d->c = {a.d, b.d};
  auto p = fo::apply(std::move(a.parser), std::move(b.parser));
  return both<decltype(p)>{std::move(p), d};
}
template <typename A, typename B, typename C>
auto prod(A a, B b, C c)
{
  return prod(std::move(a), prod(std::move(b), std::move(c)));
}
template <typename L, typename A, typename B>
auto sum(A a, B b)
{
  auto d = std::make_shared<desc>();
  d->k = desc::SUM; d->label = lname<L>::get(); d->c = {a.d, b.d};
  auto p = fo::make_sum<L>(std::move(a.parser), std::move(b.parser));
  return both<decltype(p)>{std::move(p), d};
}
template <typename T1, typename T2, typename O, typename A, typename B>
auto cmds(O o, std::string n1, A a, std::string n2, B b)
{
  auto d = std::make_shared<desc>();
  d->k = desc::COMMANDS; d->c = {o.d, a.d, b.d}; d->cmd_names = {n1, n2}; d->cmd_tags = {lname<T1>::get(), lname<T2>::get()};
  auto p = fo::make_commands(std::move(o.parser), fo::make_sub_command<T1>(std::move(n1), std::move(a.parser), fo::optional_help_text{}), fo::make_sub_command<T2>(std::move(n2), std::move(b.parser), fo::optional_help_text{}));
  return both<decltype(p)>{std::move(p), d};
}
template <typename T1, typename T2, typename T3, typename O, typename A, typename B, typename C>
auto cmds3(O o, std::string n1, A a, std::string n2, B b, std::string n3, C c)
{
  auto d = std::make_shared<desc>();
  d->k = desc::COMMANDS; d->c = {o.d, a.d, b.d, c.d}; d->cmd_names = {n1, n2, n3}; d->cmd_tags = {lname<T1>::get(), lname<T2>::get(), lname<T3>::get()};
  auto p = fo::make_commands(
      std::move(o.parser), fo::make_sub_command<T1>(std::move(n1), std::move(a.parser), fo::optional_help_text{}),
      fo::make_sub_command<T2>(std::move(n2), std::move(b.parser), fo::optional_help_text{}),
      fo::make_sub_command<T3>(std::move(n3), std::move(c.parser), fo::optional_help_text{}));
  return both<decltype(p)>{std::move(p), d};
}

// ------------------------------------------------------------------ running a shape
inline std::vector<std::string> const &alphabet()
{
  static std::vector<std::string> const a{"--ff", "-f", "--oo", "-o", "7", "x", "-", "--", "c1", "c2", "-7", "--zz", "red"};
  return a;
}
inline args decode_args(Ints const &c, std::size_t from)
{
  args a;
  for (std::size_t i = from; i < c.size() && a.size() < 14; ++i) a.push_back(alphabet()[static_cast<u64>(c[i]) % alphabet().size()]);
  return a;
}
inline std::string show_args(args const &a)
{
  std::string r = "[";
  for (auto const &t : a) r += t + " ";
  return r + "]";
}

struct shape_base
{
  virtual ~shape_base() = default;
  virtual void check(args const &a, bool help) const = 0;
  std::string name;
  int id{0};
};
template <typename B>
struct shape : shape_base
{
  B b;
  shape(int i, std::string n, B bb) : b(std::move(bb))
  {
    id = i;
    name = std::move(n);
  }
  void check(args const &a, bool help) const override
  {
    interp it;
    mres const m = it.to_empty(b.d, a, option_names(b.d));
    std::string const ms = m.k == mres::OK ? "OK" + rrender(m.r) : "FAIL";
    count(it.consumed_by_later_parser || it.option_like_value || it.repeated_flag);
    cls(m.k == mres::OK ? "reference-accepts" : "reference-rejects");
    std::string rs;
    if (!help)
    {
      auto const real = fo::parse(b.parser, fcppt::args_vector(a.begin(), a.end()));
      rs = fcppt::either::match(real, [](fo::error const &) { return std::string("FAIL"); }, [](auto const &r) { return "OK" + render(r); });
    }
    else
    {
      // the help wrapper: "--help" alone yields the help text, otherwise the result of the parser
      auto const real = fo::parse_help(fo::default_help_switch(), b.parser, fcppt::args_vector(a.begin(), a.end()));
      rs = fcppt::variant::match(
          real,
          [](fo::result<fo::result_of<decltype(b.parser)>> const &res) {
            return fcppt::either::match(res, [](fo::error const &) { return std::string("FAIL"); }, [](auto const &r) { return "OK" + render(r); });
          },
          [](fo::help_text const &) { return std::string("HELP"); });
      if (rs == "HELP")
      {
        // Reading: the help text is returned exactly when the help switch parser accepts the whole vector
        if (!(a.size() == 1 && a[0] == "--help")) fail("options::parse_help|help-text-for-other-input", name + " on " + show_args(a) + " returned the help text");
        return;
      }
      if (a.size() == 1 && a[0] == "--help")
      {
        fail("options::parse_help|no-help-text", name + " on [--help] did not return the help text");
        return;
      }
      if (std::find(a.begin(), a.end(), "--help") != a.end())
      {
        // the switch AND something else. Documented: no help text then (checked above); and since
        // nothing may be dropped silently, a record can only come back if "--help" was consumed as the
        // value of an option. Reading: when some "--help" directly follows a token that is an option
        // name of the parser nothing more is demanded; otherwise the vector must be rejected.
        optnames on; // every option name anywhere in the definition, sub-commands included
        std::function<void(dp const &)> const collect = [&](dp const &d) {
          if (d->k == desc::OPTION)
          {
            on.insert({d->lng, false});
            if (!d->sht.empty()) on.insert({d->sht, true});
          }
          for (auto const &ch : d->c) collect(ch);
        };
        collect(b.d);
        bool may_be_value = false;
        for (std::size_t i = 1; i < a.size(); ++i)
          if (a[i] == "--help")
            for (auto const &o : on)
              if (a[i - 1] == (o.second ? "-" : "--") + o.first) may_be_value = true;
        cls(may_be_value ? "help switch possibly an option value" : "help switch and something else");
        if (!may_be_value && rs != "FAIL") fail("options::parse_help|switch-and-something-else|not-rejected", name + " on " + show_args(a) + ": " + rs + " although --help was given together with other arguments (it is neither the help request nor accounted for by the record)");
        return;
      }
    }
    if (rs != ms)
    {
      bool const r_ok = rs.substr(0, 2) == "OK", m_ok = ms.substr(0, 2) == "OK";
      std::string const kind = r_ok != m_ok ? (r_ok ? "accepted-but-reference-rejects" : "rejected-but-reference-accepts") : "different-record";
      fail("options::parse|reference|" + kind, name + " on " + show_args(a) + ": fcppt " + rs + ", reference " + ms);
      return;
    }
    if (m.k == mres::OK)
    {
      // conservation (model-free w.r.t. order): every input token is used by exactly one sub-parser
      std::map<std::string, std::string> al;
      aliases(b.d, al);
      tokens in;
      for (auto const &t : a) in.push_back(al.count(t) ? al[t] : t);
      tokens used;
      for (auto const &t : m.used) used.push_back(al.count(t) ? al[t] : t);
      std::sort(in.begin(), in.end());
      std::sort(used.begin(), used.end());
      if (in != used) fail("options::parse|conservation", name + " on " + show_args(a) + " succeeded with " + rs + " but the tokens it accounts for are " + show_args(used));
    }
  }
};
template <typename B>
std::unique_ptr<shape_base> mk_shape(int id, std::string name, B b)
{
  return std::make_unique<shape<B>>(id, std::move(name), std::move(b));
}

using shape_list = std::vector<std::unique_ptr<shape_base>>;

inline void run_exhaustive(shape_list const &shapes)
{
  std::size_t const maxlen = opts().thorough() ? 5 : 4;
  std::size_t const na = alphabet().size();
  for (auto const &sh : shapes)
    for (std::size_t len = 0; len <= maxlen; ++len)
    {
      std::size_t total = 1;
      for (std::size_t i = 0; i < len; ++i) total *= na;
      args a(len);
      for (std::size_t k = 0; k < total; ++k)
      {
        std::size_t kk = k;
        g_cur.ints[0] = sh->id;
        g_cur.ints[1] = 0;
        for (std::size_t i = 0; i < len; ++i)
        {
          a[i] = alphabet()[kk % na];
          g_cur.ints[2 + i] = static_cast<i64>(kk % na);
          kk /= na;
        }
        g_cur.n = 2 + len;
        sh->check(a, false);
      }
    }
}
inline void run_one(shape_list const &shapes, Ints const &c)
{
  for (auto const &sh : shapes)
    if (sh->id == c.at(0)) sh->check(decode_args(c, 2), c.at(1) % 2 == 1);
}
inline std::string describe(shape_list const &shapes, Ints const &c)
{
  for (auto const &sh : shapes)
    if (sh->id == c.at(0)) return "shape #" + std::to_string(sh->id) + " " + sh->name + (c.at(1) % 2 == 1 ? " (parse_help)" : "") + " on " + show_args(decode_args(c, 2));
  return "shape #" + std::to_string(c.at(0)) + " (not in this translation unit)";
}
// the help entry point: a quarter of the cases; of those a half is exactly [--help], a quarter has
// "--help" inserted somewhere into the random vector (the switch AND something else), a quarter has no
// "--help" at all
inline void help_args(Ints const &c, args &a)
{
  u64 const m = static_cast<u64>(c[1]);
  if (m % 8 == 0) a = args{"--help"};
  else if (m % 16 == 4) a.insert(a.begin() + static_cast<long>((m / 16) % (a.size() + 1)), "--help");
}
// random longer vectors (and the help wrapper): ints[0] picks the shape, ints[1] the entry point
inline void run_random_case(shape_list const &shapes, Ints const &c)
{
  if (c.size() < 2 || shapes.empty()) { count(false); return; }
  auto const &sh = shapes[static_cast<u64>(c[0]) % shapes.size()];
  args a = decode_args(c, 2);
  bool const help = c[1] % 4 == 0;
  if (help) help_args(c, a);
  sh->check(a, help);
}
inline std::string describe_random(shape_list const &shapes, Ints const &c)
{
  if (c.size() < 2 || shapes.empty()) return "(empty)";
  auto const &sh = shapes[static_cast<u64>(c[0]) % shapes.size()];
  args a = decode_args(c, 2);
  bool const help = c[1] % 4 == 0;
  if (help) help_args(c, a);
  return "shape #" + std::to_string(sh->id) + " " + sh->name + (help ? " (parse_help)" : "") + " on " + show_args(a);
}

inline char const *rule_text()
{
  return "the vector contains a token consumed by a non-first sub-parser, or an option value that looks like a flag, or a repeated flag";
}
}

#define C03_TU(PART, SHAPES_FN)                                                                                             \
  static c03::shape_list const &shapes_##PART()                                                                            \
  {                                                                                                                        \
    static c03::shape_list const s = SHAPES_FN();                                                                          \
    return s;                                                                                                              \
  }                                                                                                                        \
  static verif::Reg const r_ex_##PART{"options_exhaustive_part" #PART, verif::Kind::exhaustive, c03::rule_text(),          \
                                      [] { c03::run_exhaustive(shapes_##PART()); },                                        \
                                      [](verif::Ints const &c) { c03::run_one(shapes_##PART(), c); },                      \
                                      [](verif::Ints const &c) { return c03::describe(shapes_##PART(), c); }};             \
  static verif::Reg const r_rand_##PART{"options_random_part" #PART, verif::Kind::random, c03::rule_text(),                \
                                        [] { verif::run_random(*verif::g_cur.sec, {4000, 4}, {40000, 4}); },               \
                                        [](verif::Ints const &c) { c03::run_random_case(shapes_##PART(), c); },            \
                                        [](verif::Ints const &c) { return c03::describe_random(shapes_##PART(), c); }};

#endif
