// VERIF: quick_shards=4
// C16 - fcppt.container helpers, array::* and tuple::* against loop references; the sections are in
// c16_container_impl.hpp (shared with c16_heap_container.cpp).
#include "c16_container_impl.hpp"
