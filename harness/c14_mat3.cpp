// VERIF: rc quick_shards=2
// C14 - random 3x3 integer matrices (entries in [-9,9]) and non-square products (2x3, 3x4, 4x2),
// against the naive array reference AND the algebraic identities; static and view storage per operand.
#include "c14_random.hpp"

using namespace verif;
using namespace c14;

namespace
{
Reg const r_m3{"m3_random", Kind::random, std::string("3x3: ") + sq_rule, [] { run_random(*g_cur.sec, {20000, 8}, {60000, 8}); }, sq_one<3>, sq_describe<3>};

// ---------------------------------------------------------------- non-square: A 2x3, B 3x4, C 4x2
struct NsCase
{
  int mode;
  Mat<int, 2, 3> a, a2;
  Mat<int, 3, 4> b;
  Mat<int, 4, 2> c;
  Vec<int, 3> v3;
  Vec<int, 4> v4;
};
NsCase decode_ns(Ints const &in)
{
  Choices ch(in);
  NsCase s;
  s.mode = static_cast<int>(ch.raw() & 63);
  Digits d(ch);
  s.a = d.arr<int, 6>();
  s.b = d.arr<int, 12>();
  s.c = d.arr<int, 8>();
  s.a2 = d.arr<int, 6>();
  s.v3 = d.arr<int, 3>();
  s.v4 = d.arr<int, 4>();
  return s;
}
template <std::size_t N>
bool all_zero(std::array<int, N> const &a)
{
  for (int x : a)
    if (x != 0) return false;
  return true;
}
void ns_one(Ints const &in)
{
  NsCase const s = decode_ns(in);
  // no identity / diagonal among non-square matrices: trivial = a null operand
  count(!all_zero(s.a) && !all_zero(s.b) && !all_zero(s.c));
  int const m = s.mode;
  auto txt = [&] { return "A(2x3) = " + show_arr(s.a, 3) + ", B(3x4) = " + show_arr(s.b, 4) + ", C(4x2) = " + show_arr(s.c, 2); };
  check_construction<int, 2, 3>(s.a, std::make_index_sequence<6>{});
  check_construction<int, 3, 4>(s.b, std::make_index_sequence<12>{});
  check_addressing<int, 2, 3>(m, s.a, std::make_index_sequence<6>{});
  check_addressing<int, 3, 4>(m >> 1, s.b, std::make_index_sequence<12>{});
  check_addressing<int, 4, 2>(m >> 2, s.c, std::make_index_sequence<8>{});
  check_minors<int, 2, 3>(m, s.a, std::make_index_sequence<6>{});
  check_minors<int, 3, 4>(m >> 1, s.b, std::make_index_sequence<12>{});
  check_minors<int, 4, 2>(m >> 2, s.c, std::make_index_sequence<8>{});
  auto const ab = f_mul<int, 2, 3, 4>(m, s.a, s.b);
  if (ab != r_mul<int, 2, 3, 4>(s.a, s.b)) fail("matrix::operator*|vs-reference|2x3*3x4", txt() + ": " + show_arr(ab, 4));
  auto const bc = f_mul<int, 3, 4, 2>(m >> 1, s.b, s.c);
  if (bc != r_mul<int, 3, 4, 2>(s.b, s.c)) fail("matrix::operator*|vs-reference|3x4*4x2", txt() + ": " + show_arr(bc, 2));
  auto const ab_c = f_mul<int, 2, 4, 2>(m >> 1, ab, s.c), a_bc = f_mul<int, 2, 3, 2>(m, s.a, bc);
  if (ab_c != a_bc) fail("matrix::operator*|associativity|non-square", txt());
  auto const at = f_transpose<int, 2, 3>(m, s.a);
  auto const bt = f_transpose<int, 3, 4>(m >> 1, s.b);
  if (at != r_transpose<int, 2, 3>(s.a) || bt != r_transpose<int, 3, 4>(s.b)) fail("matrix::transpose|vs-reference|non-square", txt());
  if (f_transpose<int, 3, 2>(m >> 3, at) != s.a) fail("matrix::transpose|involution|non-square", txt());
  if (f_transpose<int, 2, 4>(m >> 2, ab) != f_mul<int, 4, 3, 2>(m >> 3, bt, at)) fail("matrix::transpose|(AB)^T=B^T*A^T|non-square", txt());
  // distributivity with a second 2x3 operand: (A+A2)B = AB + A2B
  auto const sum = f_add<int, 2, 3>(m >> 2, s.a, s.a2);
  if (sum != r_add<int, 2, 3>(s.a, s.a2) || f_sub<int, 2, 3>(m >> 3, sum, s.a2) != s.a) fail("matrix::operator+|vs-reference|2x3", txt());
  if (f_mul<int, 2, 3, 4>(m >> 1, sum, s.b) != f_add<int, 2, 4>(m, ab, f_mul<int, 2, 3, 4>(m >> 2, s.a2, s.b))) fail("matrix::operator*|right-distributivity|non-square", txt());
  // matrix * vector
  for (int vm = 0; vm < 3; ++vm)
  {
    if (f_matvec<int, 2, 3>((m & 1) | (vm << 1), s.a, s.v3) != r_matvec<int, 2, 3>(s.a, s.v3)) fail("matrix::operator*(vector)|vs-reference|2x3", txt() + ", v = " + show_arr(s.v3));
    if (f_matvec<int, 3, 4>(((m >> 1) & 1) | (vm << 1), s.b, s.v4) != r_matvec<int, 3, 4>(s.b, s.v4)) fail("matrix::operator*(vector)|vs-reference|3x4", txt() + ", v = " + show_arr(s.v4));
  }
  if (f_matvec<int, 2, 4>(0, ab, s.v4) != f_matvec<int, 2, 3>(m & 1, s.a, f_matvec<int, 3, 4>((m >> 1) & 1, s.b, s.v4))) fail("matrix::operator*(vector)|(AB)v=A(Bv)|non-square", txt());
  if (f_scale<int, 3, 4>(m >> 1, s.b, s.v3[0]) != r_scale(s.b, s.v3[0])) fail("matrix::operator*(scalar)|vs-reference|3x4", txt());
}
Reg const r_ns{"nonsquare_random", Kind::random,
               "A 2x3, B 3x4, C 4x2, a second 2x3, vectors; entries in [-9,9]; products, transposes, minors, addressing; non-trivial: no operand is null",
               [] { run_random(*g_cur.sec, {20000, 8}, {60000, 8}); }, ns_one,
               [](Ints const &in) {
                 NsCase const s = decode_ns(in);
                 return "A(2x3) = " + show_arr(s.a, 3) + ", B(3x4) = " + show_arr(s.b, 4) + ", C(4x2) = " + show_arr(s.c, 2) + ", A2 = " + show_arr(s.a2, 3) + ", v3 = " + show_arr(s.v3) +
                        ", v4 = " + show_arr(s.v4) + ", storage bits " + std::to_string(s.mode);
               }};

}
