// VERIF: lib quick_shards=2
// C05 - generic operations conserve values: fcppt::options flag / option / many constructors with a
// tracked value type (active / inactive / default values), and fcppt::parse sequence / repetition /
// convert constructors and results with a tracked parser (a function object whose copies and moves
// are visible) producing tracked values.
// A case has two phases: construction (the values / parsers enter as rvalues or lvalues) and use of
// the constructed parser (a const lvalue: it may copy its stored values into results, but must not
// have lost them).
// Not instantiated (rejected at compile time, so there is no failing input): options::make_many,
// parse operator>> / operator* / make_convert with an lvalue parser (the constructors take Parser&&).
#include "c05_common.hpp"

#include <fcppt/args_vector.hpp>
#include <fcppt/function.hpp>
#include <fcppt/reference.hpp>
#include <fcppt/string.hpp>
#include <fcppt/text.hpp>
#include <fcppt/either/bind.hpp>
#include <fcppt/either/make_failure.hpp>
#include <fcppt/either/object.hpp>
#include <fcppt/optional/object.hpp>
#include <fcppt/options/active_value.hpp>
#include <fcppt/options/apply.hpp>
#include <fcppt/options/default_value.hpp>
#include <fcppt/options/exception.hpp>
#include <fcppt/options/flag.hpp>
#include <fcppt/options/inactive_value.hpp>
#include <fcppt/options/long_name.hpp>
#include <fcppt/options/make_active_value.hpp>
#include <fcppt/options/make_default_value.hpp>
#include <fcppt/options/make_inactive_value.hpp>
#include <fcppt/options/make_many.hpp>
#include <fcppt/options/many_impl.hpp>
#include <fcppt/options/option.hpp>
#include <fcppt/options/optional_help_text.hpp>
#include <fcppt/options/optional_short_name.hpp>
#include <fcppt/options/parse.hpp>
#include <fcppt/options/short_name.hpp>
#include <fcppt/parse/basic_stream_impl.hpp>
#include <fcppt/parse/error.hpp>
#include <fcppt/parse/get_char_error.hpp>
#include <fcppt/parse/make_convert.hpp>
#include <fcppt/parse/make_success.hpp>
#include <fcppt/parse/parse_string.hpp>
#include <fcppt/parse/result.hpp>
#include <fcppt/parse/tag.hpp>
#include <fcppt/parse/operators/repetition.hpp>
#include <fcppt/parse/operators/sequence.hpp>
#include <fcppt/record/element.hpp>
#include <fcppt/record/get.hpp>
#include <fcppt/record/make_label.hpp>
#include <fcppt/record/object.hpp>
#include <fcppt/tuple/object.hpp>

#include <string>
#include <utility>
#include <vector>

using namespace c05;

namespace
{
FCPPT_RECORD_MAKE_LABEL(val_label);
FCPPT_RECORD_MAKE_LABEL(val2_label);
using flag_t = fcppt::options::flag<val_label, tracked>;
using option_t = fcppt::options::option<val_label, tracked>;
using many_t = fcppt::options::many<option_t>;
using option2_t = fcppt::options::option<val2_label, tracked>;
using opt = fcppt::optional::object<tracked>;

fcppt::options::optional_short_name short_name(bool present, char const *n)
{
  return present ? fcppt::options::optional_short_name{fcppt::options::short_name{fcppt::string(n, n + std::char_traits<char>::length(n))}}
                 : fcppt::options::optional_short_name{};
}
fcppt::options::long_name long_name(char const *n) { return fcppt::options::long_name{fcppt::string(n, n + std::char_traits<char>::length(n))}; }
fcppt::args_vector args(std::vector<std::string> const &v)
{
  fcppt::args_vector r;
  for (std::string const &s : v) r.push_back(fcppt::string(s.begin(), s.end()));
  return r;
}

// result of parsing with a one-element record parser: the tracked value, or nothing on failure
template <typename Parser>
void expect_parse(Ctx &cx, Parser const &p, std::vector<std::string> const &a, std::vector<int> const &expected, char const *what)
{
  auto const res = fcppt::options::parse(p, args(a));
  if (!res.has_success())
  {
    if (!expected.empty()) fail(cx.key("parse-failed"), cx.where() + "parsing (" + what + ") failed");
    return;
  }
  cx.result_snap(snap(fcppt::record::get<val_label>(res.get_success_unsafe())), expected, true, what);
}

template <typename Parser>
void expect_parse2(Ctx &cx, Parser const &p, std::vector<std::string> const &a, std::vector<int> const &expected, char const *what)
{
  auto const res = fcppt::options::parse(p, args(a));
  if (!res.has_success())
  {
    if (!expected.empty()) fail(cx.key("parse-failed"), cx.where() + "parsing (" + what + ") failed");
    return;
  }
  cx.result_snap(snap(fcppt::record::get<val2_label>(res.get_success_unsafe())), expected, true, what);
}

Family const &options_family()
{
  static Family const f = [] {
    Family r;
    // ---- flag: shape bit 0: with a short name; shapes 2,3: active == inactive (documented error)
    r.push_back(entry0("options::flag", 4, [](Ctx &cx, int shape) {
      bool const equal = shape >= 2;
      fcppt::options::active_value<tracked> av = fcppt::options::make_active_value(tracked(0));
      fcppt::options::inactive_value<tracked> iv = fcppt::options::make_inactive_value(tracked(equal ? 10 : 1));
      cx.arg<rv>(av, "active");
      cx.arg<rv>(iv, "inactive");
      cx.klass_override("constructor");
      cx.begin();
      fcppt::optional::object<flag_t> parser;
      bool threw = false;
      try
      {
        parser = fcppt::optional::object<flag_t>{
            flag_t{short_name((shape & 1) != 0, "f"), long_name("flag"), std::move(av), std::move(iv), fcppt::options::optional_help_text{}}};
      }
      catch (fcppt::options::exception const &)
      {
        threw = true;
      }
      // "The active and the inactive value must be different" (origins 0 and 10 compare equal)
      if (threw != equal)
        fail(cx.key(equal ? "equal-values-accepted" : "reads-moved-from"),
             cx.where() + (equal ? "equal active and inactive values were accepted" : "different active (0) and inactive (1) values were rejected as equal: the constructor compared its parameters after moving them into the members"));
      cx.phase("parse");
      if (!parser.has_value()) return;
      expect_parse(cx, parser.get_unsafe(), {}, {equal ? 10 : 1}, "inactive result");
      expect_parse(cx, parser.get_unsafe(), {"--flag"}, {0}, "active result");
      if (shape & 1) expect_parse(cx, parser.get_unsafe(), {"-f"}, {0}, "active result");
    }));
    // ---- option: shape bit 0: short name, bit 1: default value present
    r.push_back(entry0("options::option", 4, [](Ctx &cx, int shape) {
      bool const has_default = (shape & 2) != 0;
      option_t::optional_default_value dv = fcppt::options::make_default_value(has_default ? opt{tracked(0)} : opt{});
      cx.arg<rv>(dv, "default");
      cx.klass_override("constructor");
      cx.begin();
      option_t parser{short_name((shape & 1) != 0, "o"), long_name("opt"), std::move(dv), fcppt::options::optional_help_text{}};
      cx.phase("parse");
      expect_parse(cx, parser, {}, has_default ? std::vector<int>{0} : std::vector<int>{}, "default result");
      expect_parse(cx, parser, {}, has_default ? std::vector<int>{0} : std::vector<int>{}, "default result (second parse)");
      // a value extracted from the command line is a fresh value: it is moved into the result
      ++cx.elements;
      expect_parse(cx, parser, {"--opt", "5"}, {extract_base + 5}, "extracted result");
      if (shape & 1) expect_parse(cx, parser, {"-o", "6"}, {extract_base + 6}, "extracted result");
      (void)parser.usage();
    }));
    // ---- many: the wrapped parser is moved (rvalue) or copied (lvalue, which must stay usable)
    // (the wrapped option has no default value: `many` of a parser that always succeeds never ends)
    r.push_back(entry1("options::many", 1, only_rv{}, [](Ctx &cx, int, auto c) {
      using C = decltype(c);
      bool const has_default = false;
      option_t inner{short_name(false, "o"), long_name("opt"), fcppt::options::make_default_value(has_default ? opt{tracked(0)} : opt{}), fcppt::options::optional_help_text{}};
      if (has_default)
      {
        (C::id == 0 ? cx.rvalue_origins : cx.lvalue_origins).insert(0);
        ++cx.elements;
      }
      cx.klass_override(std::string(cat_name(C::id)) + "-parser");
      cx.begin();
      many_t parser = fcppt::options::make_many(pass<C>(inner));
      cx.phase("parse");
      if constexpr (C::id != 0)
        expect_parse(cx, inner, {}, has_default ? std::vector<int>{0} : std::vector<int>{}, "default result of the lvalue parser after make_many");
      cx.elements += 2;
      expect_parse(cx, parser, {"--opt", "3", "--opt", "4"}, {extract_base + 3, extract_base + 4}, "collected values");
    }));
    // ---- apply (the product of several parsers): the first parser enters as an rvalue, the last one
    // as an rvalue, an lvalue or a const lvalue (the last position is where apply accepts an lvalue
    // parser). An lvalue parser is copied and must stay usable afterwards: same names, same default.
    r.push_back(entry1("options::apply", 1, any_cat{}, [](Ctx &cx, int, auto c) {
      using C = decltype(c);
      option_t first{short_name(false, "o"), long_name("opt"), fcppt::options::make_default_value(opt{tracked(0)}), fcppt::options::optional_help_text{}};
      option2_t last{short_name(true, "p"), long_name("last"), fcppt::options::make_default_value(opt{tracked(1)}), fcppt::options::optional_help_text{}};
      cx.rvalue_origins.insert(0);
      (C::id == 0 ? cx.rvalue_origins : cx.lvalue_origins).insert(1);
      cx.elements += 2;
      cx.klass_override(std::string(cat_name(C::id)) + "-last-parser");
      cx.begin();
      auto const parser = fcppt::options::apply(std::move(first), pass<C>(last));
      cx.phase("parse");
      if constexpr (C::id != 0)
      {
        // the lvalue parser after the call: default value, long and short name still there
        expect_parse2(cx, last, {}, {1}, "default result of the lvalue parser after apply");
        ++cx.elements;
        expect_parse2(cx, last, {"--last", "4"}, {extract_base + 4}, "lvalue parser after apply, long name");
        ++cx.elements;
        expect_parse2(cx, last, {"-p", "5"}, {extract_base + 5}, "lvalue parser after apply, short name");
      }
      auto const res = fcppt::options::parse(parser, args({}));
      if (!res.has_success()) fail(cx.key("parse-failed"), cx.where() + "parsing [] with the product of two options with defaults failed");
      else
      {
        Snap got = snap(fcppt::record::get<val_label>(res.get_success_unsafe()));
        for (ElemSnap const &e : snap(fcppt::record::get<val2_label>(res.get_success_unsafe()))) got.push_back(e);
        cx.result_snap(got, {0, 1}, true, "defaults of the product");
      }
      cx.elements += 2;
      auto const res2 = fcppt::options::parse(parser, args({"--last", "7", "--opt", "6"}));
      if (!res2.has_success()) fail(cx.key("parse-failed"), cx.where() + "parsing [--last 7 --opt 6] with the product failed");
      else
      {
        Snap got = snap(fcppt::record::get<val_label>(res2.get_success_unsafe()));
        for (ElemSnap const &e : snap(fcppt::record::get<val2_label>(res2.get_success_unsafe()))) got.push_back(e);
        cx.result_snap(got, {extract_base + 6, extract_base + 7}, true, "extracted values of the product");
      }
    }));
    return r;
  }();
  return f;
}

// --------------------------------------------------------------------------------------- parse
// parses one decimal digit d into the fresh value extract_base + d; carries a tracked marker
class digit_parser : private fcppt::parse::tag, public tracked_fn_base
{
public:
  explicit digit_parser(int origin) : tracked_fn_base(origin) {}
  using result_type = tracked;
  template <typename Ch, typename Skipper>
  fcppt::parse::result<Ch, tracked> parse(fcppt::reference<fcppt::parse::basic_stream<Ch>> const state, Skipper const &) const
  {
    this->used();
    return fcppt::either::bind(fcppt::parse::get_char_error(state), [](Ch const ch) -> fcppt::parse::result<Ch, tracked> {
      if (ch >= Ch('0') && ch <= Ch('9')) return fcppt::parse::make_success<Ch>(tracked(extract_base + static_cast<int>(ch - Ch('0'))));
      return fcppt::either::make_failure<tracked>(fcppt::parse::error<Ch>{std::basic_string<Ch>(1, Ch('?'))});
    });
  }
};
// conversion function object with a tracked marker
struct convert_fn : tracked_fn_base
{
  explicit convert_fn(int origin) : tracked_fn_base(origin) {}
  tracked operator()(tracked &&x) const
  {
    this->used();
    return conv{}(std::move(x));
  }
};

char const *const function_copy_key = "function|rvalue-function|copied";

template <typename R>
void expect_parse_string(Ctx &cx, R const &res, std::vector<int> const &expected, char const *what)
{
  if (!res.has_success())
  {
    fail(cx.key("parse-failed"), cx.where() + "parsing (" + what + ") failed");
    return;
  }
  cx.result_snap(snap(res.get_success_unsafe()), expected, true, what);
}

Family const &parse_family()
{
  static Family const f = [] {
    Family r;
    // ---- fcppt::function (what parse::convert / make_convert / options store their callables in)
    r.push_back(entry1("function", 1, any_cat{}, [](Ctx &cx, int, auto c) {
      using C = decltype(c);
      convert_fn fn(41);
      cx.arg<C>(fn, "function");
      cx.begin();
      fcppt::function<tracked(tracked &&)> const res{pass<C>(fn)};
      cx.end();
      cx.phase("call");
      tracked out = res(tracked(extract_base));
      ++cx.elements;
      cx.result(out, {extract_base});
    }));
    // ---- sequence (operator>>): both parsers in every category
    r.push_back(entry2("parse::sequence", 1, only_rv{}, only_rv{}, [](Ctx &cx, int, auto c1, auto c2) {
      using C1 = decltype(c1);
      using C2 = decltype(c2);
      digit_parser a(40), b(41);
      cx.arg<C1>(a, "left");
      cx.arg<C2>(b, "right");
      cx.begin();
      auto const parser = pass<C1>(a) >> pass<C2>(b);
      cx.end();
      cx.phase("parse");
      cx.elements += 2;
      expect_parse_string(cx, fcppt::parse::parse_string(parser, std::string("12")), {extract_base + 1, extract_base + 2}, "sequence result");
      expect_parse_string(cx, fcppt::parse::parse_string(parser, std::string("34")), {extract_base + 3, extract_base + 4}, "sequence result (second parse)");
    }));
    r.push_back(entry1("parse::sequence(3)", 1, only_rv{}, [](Ctx &cx, int, auto c) {
      using C = decltype(c);
      digit_parser a(40), b(41), d(42);
      cx.arg<C>(a, "parsers");
      cx.arg<C>(b, "parsers");
      cx.arg<C>(d, "parsers");
      cx.klass_override(std::string(cat_name(C::id)) + "-parsers");
      cx.key_fn = "parse::sequence";
      cx.begin();
      auto const parser = pass<C>(a) >> pass<C>(b) >> pass<C>(d);
      cx.end();
      cx.phase("parse");
      cx.elements += 3;
      expect_parse_string(cx, fcppt::parse::parse_string(parser, std::string("123")), {extract_base + 1, extract_base + 2, extract_base + 3}, "sequence result");
    }));
    // ---- repetition (operator*): shape = number of digits in the input
    r.push_back(entry1("parse::repetition", seq, only_rv{}, [](Ctx &cx, int shape, auto c) {
      using C = decltype(c);
      int const n = seq_n(shape);
      digit_parser a(40);
      cx.arg<C>(a, "parser");
      cx.begin();
      auto const parser = *pass<C>(a);
      cx.end();
      cx.phase("parse");
      cx.elements += n;
      std::string input;
      std::vector<int> expected;
      for (int i = 0; i < n; ++i)
      {
        input += static_cast<char>('1' + i);
        expected.push_back(extract_base + 1 + i);
      }
      expect_parse_string(cx, fcppt::parse::parse_string(parser, std::move(input)), expected, "repetition result");
    }));
    // ---- convert: parser and conversion function in every category
    r.push_back(entry2("parse::make_convert", 1, only_rv{}, any_cat{}, [](Ctx &cx, int, auto c1, auto c2) {
      using C1 = decltype(c1);
      using C2 = decltype(c2);
      digit_parser a(40);
      convert_fn fn(41);
      cx.arg<C1>(a, "parser");
      cx.arg<C2>(fn, "function");
      // make_convert stores the function in an fcppt::function: a copy of it has that constructor's root cause
      cx.copy_key[41] = function_copy_key;
      cx.begin();
      auto const parser = fcppt::parse::make_convert(pass<C1>(a), pass<C2>(fn));
      cx.end();
      cx.phase("parse");
      cx.elements += 1;
      expect_parse_string(cx, fcppt::parse::parse_string(parser, std::string("7")), {extract_base + 7}, "convert result");
    }));
    // ---- repetition of a sequence of converted parsers: results flow through all three layers
    r.push_back(entry0("parse::repetition(sequence(convert))", seq, [](Ctx &cx, int shape) {
      int const n = seq_n(shape);
      digit_parser a(40), b(41);
      convert_fn fn(42);
      cx.arg<rv>(a, "parsers");
      cx.arg<rv>(b, "parsers");
      cx.arg<rv>(fn, "parsers");
      cx.klass_override("rvalue-parsers");
      cx.copy_key[42] = function_copy_key;
      cx.begin();
      auto const parser = *(fcppt::parse::make_convert(std::move(a), std::move(fn)) >> std::move(b));
      cx.end();
      cx.phase("parse");
      cx.elements += 2 * n;
      std::string input;
      std::vector<int> expected;
      for (int i = 0; i < 2 * n; ++i)
      {
        input += static_cast<char>('0' + i % 10);
        expected.push_back(extract_base + i % 10);
      }
      expect_parse_string(cx, fcppt::parse::parse_string(parser, std::move(input)), expected, "nested result");
    }));
    return r;
  }();
  return f;
}

C05_SECTION(r_options, "options", options_family);
C05_SECTION(r_parse, "parse", parse_family);
}
