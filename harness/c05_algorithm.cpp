// VERIF: quick_shards=2
// C05 - generic operations conserve values: fcppt::algorithm and fcppt::container helpers.
// Registry entries run for every shape (0/1/3 elements; more in the thorough tier) x every value
// category of every argument. See c05_common.hpp for the element type, the continuations and the
// oracle (clauses (1)-(5) of DESIGN.md C05).
#include "c05_common.hpp"

#include <fcppt/loop.hpp>
#include <fcppt/algorithm/fold.hpp>
#include <fcppt/algorithm/fold_break.hpp>
#include <fcppt/algorithm/generate_n.hpp>
#include <fcppt/algorithm/loop.hpp>
#include <fcppt/algorithm/loop_break.hpp>
#include <fcppt/algorithm/map.hpp>
#include <fcppt/algorithm/map_concat.hpp>
#include <fcppt/algorithm/map_optional.hpp>
#include <fcppt/algorithm/remove.hpp>
#include <fcppt/algorithm/remove_if.hpp>
#include <fcppt/algorithm/reverse.hpp>
#include <fcppt/algorithm/unique.hpp>
#include <fcppt/container/get_or_insert.hpp>
#include <fcppt/container/get_or_insert_with_result.hpp>
#include <fcppt/container/join.hpp>
#include <fcppt/container/make.hpp>
#include <fcppt/container/make_move_range.hpp>
#include <fcppt/container/pop_back.hpp>
#include <fcppt/container/pop_front.hpp>
#include <fcppt/optional/object.hpp>

#include <deque>
#include <list>
#include <map>
#include <utility>
#include <vector>

using namespace c05;

namespace
{
using vec = std::vector<tracked>;
using opt = fcppt::optional::object<tracked>;

// keeps the elements whose origin bit is set in mask (as an optional), drops the others untouched
struct opt_conv
{
  unsigned mask;
  template <typename T>
  opt operator()(T &&x) const
  {
    if (!pred{mask}(x)) return opt{};
    return opt{conv{}(std::forward<T>(x))};
  }
};
// element -> {converted element, fresh value}
struct concat_conv
{
  template <typename T>
  vec operator()(T &&x) const
  {
    vec r;
    r.reserve(2);
    r.push_back(conv{}(std::forward<T>(x)));
    r.push_back(gen{}());
    return r;
  }
};
// fold continuation: State (element, State)
struct fold_fn
{
  template <typename T>
  vec operator()(T &&x, vec &&state) const
  {
    state.reserve(state.size() + 1);
    state.push_back(conv{}(std::forward<T>(x)));
    return std::move(state);
  }
};
// fold_break continuation: stops after the element with origin `last`
struct fold_break_fn
{
  int last;
  template <typename T>
  std::pair<fcppt::loop, vec> operator()(T &&x, vec &&state) const
  {
    int const o = x.peek_origin();
    state.reserve(state.size() + 1);
    state.push_back(conv{}(std::forward<T>(x)));
    return std::pair<fcppt::loop, vec>{o == last ? fcppt::loop::break_ : fcppt::loop::continue_, std::move(state)};
  }
};
struct absorb_fn
{
  template <typename T>
  void operator()(T &&x) const { absorb(std::forward<T>(x)); }
};
struct create_fn
{
  tracked operator()(int const &) const { return gen{}(); }
};

// expected sequence for interleaved {conv(o), fresh} pairs
template <typename F>
std::vector<int> interleaved(int n, F f)
{
  std::vector<int> r;
  for (int i = 0; i < n; ++i)
  {
    r.push_back(f(i));
    r.push_back(gen_base + i);
  }
  return r;
}

void note_move_range(char const *op, int alt)
{
  if (alt < 0 || g_cx()->elements == 0) return;
  static std::string buf;
  buf = std::string("move_range-arrival|") + op + (alt == 0 ? "|rvalues" : "|lvalues");
  cls(buf.c_str());
}

Family const &algorithm_family()
{
  static Family const f = [] {
    Family r;
    // ---- map: documented "for every element e, _function(e) is inserted"; forwards elements of an
    // rvalue range as rvalues (move_if_rvalue)
    r.push_back(entry1("algorithm::map", seq, any_cat{}, [](Ctx &cx, int shape, auto c) {
      using C = decltype(c);
      int const n = seq_n(shape);
      vec v = make_vec(n);
      cx.arg<C>(v);
      cx.begin();
      vec res = fcppt::algorithm::map<vec>(pass<C>(v), conv{});
      cx.end();
      cx.result(res, mapped(iota(n), fwd<C>));
    }));
    r.push_back(entry1("algorithm::map(list->deque)", seq, any_cat{}, [](Ctx &cx, int shape, auto c) {
      using C = decltype(c);
      int const n = seq_n(shape);
      std::list<tracked> v;
      for (int i = 0; i < n; ++i) v.emplace_back(i);
      cx.arg<C>(v);
      cx.key_fn = "algorithm::map";
      cx.begin();
      std::deque<tracked> res = fcppt::algorithm::map<std::deque<tracked>>(pass<C>(v), conv{});
      cx.end();
      cx.result(res, mapped(iota(n), fwd<C>));
    }));
    r.push_back(entry0("algorithm::map(make_move_range)", seq, [](Ctx &cx, int shape) {
      int const n = seq_n(shape);
      vec v = make_vec(n);
      cx.arg<rv>(v, "move_range");
      cx.key_fn = "algorithm::map";
      cx.begin();
      vec res = fcppt::algorithm::map<vec>(fcppt::container::make_move_range(std::move(v)), conv{});
      cx.end();
      cx.result(res, iota(n));
    }));
    // ---- map_optional: lends elements (lvalues) also for an rvalue range
    for (unsigned mask : {0x3ffU, 0x5U, 0x0U})
      r.push_back(entry1("algorithm::map_optional(mask " + std::to_string(mask) + ")", seq, any_cat{}, [mask](Ctx &cx, int shape, auto c) {
        using C = decltype(c);
        int const n = seq_n(shape);
        vec v = make_vec(n);
        cx.arg<C>(v);
        cx.key_fn = "algorithm::map_optional";
        cx.begin();
        vec res = fcppt::algorithm::map_optional<vec>(pass<C>(v), opt_conv{mask});
        cx.end();
        std::vector<int> e;
        for (int i = 0; i < n; ++i)
          if ((mask >> i) & 1U) e.push_back(lend(i));
        cx.result(res, e);
      }));
    r.push_back(entry0("algorithm::map_optional(make_move_range)", seq, [](Ctx &cx, int shape) {
      int const n = seq_n(shape);
      vec v = make_vec(n);
      cx.arg<rv>(v, "move_range");
      cx.key_fn = "algorithm::map_optional";
      cx.begin();
      vec res = fcppt::algorithm::map_optional<vec>(fcppt::container::make_move_range(std::move(v)), opt_conv{0x3ffU});
      cx.end();
      // Reading: the function may receive the elements of a move range as rvalues or have them lent
      note_move_range("map_optional", cx.result_any(res, {iota(n), mapped(iota(n), lend)}));
    }));
    // ---- map_concat
    r.push_back(entry1("algorithm::map_concat", seq, any_cat{}, [](Ctx &cx, int shape, auto c) {
      using C = decltype(c);
      int const n = seq_n(shape);
      vec v = make_vec(n);
      cx.arg<C>(v);
      cx.begin();
      vec res = fcppt::algorithm::map_concat<vec>(pass<C>(v), concat_conv{});
      cx.end();
      cx.result(res, interleaved(n, lend));
    }));
    r.push_back(entry0("algorithm::map_concat(make_move_range)", seq, [](Ctx &cx, int shape) {
      int const n = seq_n(shape);
      vec v = make_vec(n);
      cx.arg<rv>(v, "move_range");
      cx.key_fn = "algorithm::map_concat";
      cx.begin();
      vec res = fcppt::algorithm::map_concat<vec>(fcppt::container::make_move_range(std::move(v)), concat_conv{});
      cx.end();
      note_move_range("map_concat", cx.result_any(res, {interleaved(n, [](int o) { return o; }), interleaved(n, lend)}));
    }));
    // ---- fold: State by value; the range's elements are forwarded with the category the range's
    // iterator yields (lvalues for a vector, rvalues for a move range)
    r.push_back(entry2("algorithm::fold", seq, any_cat{}, any_cat{}, [](Ctx &cx, int shape, auto c1, auto c2) {
      using C1 = decltype(c1);
      using C2 = decltype(c2);
      int const n = seq_n(shape);
      vec v = make_vec(n);
      vec state = make_vec(2, 20);
      cx.arg<C1>(v, "range");
      cx.arg<C2>(state, "state");
      cx.begin();
      vec res = fcppt::algorithm::fold(pass<C1>(v), pass<C2>(state), fold_fn{});
      cx.end();
      cx.result(res, cat_vec(iota(2, 20), mapped(iota(n), lend)));
    }));
    r.push_back(entry1("algorithm::fold(make_move_range)", seq, any_cat{}, [](Ctx &cx, int shape, auto c2) {
      using C2 = decltype(c2);
      int const n = seq_n(shape);
      vec v = make_vec(n);
      vec state = make_vec(1, 20);
      cx.arg<rv>(v, "move_range");
      cx.arg<C2>(state, "state");
      cx.key_fn = "algorithm::fold";
      cx.begin();
      vec res = fcppt::algorithm::fold(fcppt::container::make_move_range(std::move(v)), pass<C2>(state), fold_fn{});
      cx.end();
      cx.result(res, cat_vec(iota(1, 20), iota(n)));
    }));
    // ---- fold_break: stops after origin 1 (or never)
    for (int last : {1, 99})
      r.push_back(entry2("algorithm::fold_break(stop after " + std::to_string(last) + ")", seq, any_cat{}, rv_clv{}, [last](Ctx &cx, int shape, auto c1, auto c2) {
        using C1 = decltype(c1);
        using C2 = decltype(c2);
        int const n = seq_n(shape);
        vec v = make_vec(n);
        vec state = make_vec(1, 20);
        cx.arg<C1>(v, "range");
        cx.arg<C2>(state, "state");
        cx.key_fn = "algorithm::fold_break";
        cx.begin();
        vec res = fcppt::algorithm::fold_break(pass<C1>(v), pass<C2>(state), fold_break_fn{last});
        cx.end();
        int const seen = last == 1 ? std::min(n, 2) : n;
        cx.result(res, cat_vec(iota(1, 20), mapped(iota(seen), lend)));
      }));
    r.push_back(entry0("algorithm::fold_break(make_move_range)", seq, [](Ctx &cx, int shape) {
      int const n = seq_n(shape);
      vec v = make_vec(n);
      cx.arg<rv>(v, "move_range");
      cx.key_fn = "algorithm::fold_break";
      cx.begin();
      vec res = fcppt::algorithm::fold_break(fcppt::container::make_move_range(std::move(v)), vec{}, fold_break_fn{1});
      cx.end();
      int const seen = std::min(n, 2);
      note_move_range("fold_break", cx.result_any(res, {iota(seen), mapped(iota(seen), lend)}));
    }));
    // ---- loop
    r.push_back(entry1("algorithm::loop", seq, any_cat{}, [](Ctx &cx, int shape, auto c) {
      using C = decltype(c);
      int const n = seq_n(shape);
      vec v = make_vec(n);
      cx.arg<C>(v);
      cx.begin();
      fcppt::algorithm::loop(pass<C>(v), absorb_fn{});
      cx.end();
      cx.sink_only(mapped(iota(n), lend));
    }));
    r.push_back(entry0("algorithm::loop(make_move_range)", seq, [](Ctx &cx, int shape) {
      int const n = seq_n(shape);
      vec v = make_vec(n);
      cx.arg<rv>(v, "move_range");
      cx.key_fn = "algorithm::loop";
      cx.begin();
      fcppt::algorithm::loop(fcppt::container::make_move_range(std::move(v)), absorb_fn{});
      cx.end();
      cx.sink_only(iota(n));
    }));
    // ---- reverse
    r.push_back(entry1("algorithm::reverse", seq, any_cat{}, [](Ctx &cx, int shape, auto c) {
      using C = decltype(c);
      int const n = seq_n(shape);
      vec v = make_vec(n);
      cx.arg<C>(v);
      cx.begin();
      vec res = fcppt::algorithm::reverse(pass<C>(v));
      cx.end();
      std::vector<int> e = iota(n);
      std::reverse(e.begin(), e.end());
      cx.result(res, e);
    }));
    // ---- generate_n
    r.push_back(entry0("algorithm::generate_n", seq, [](Ctx &cx, int shape) {
      int const n = seq_n(shape);
      cx.begin();
      vec res = fcppt::algorithm::generate_n<vec>(static_cast<std::size_t>(n), gen{});
      cx.end();
      cx.result(res, iota(n, gen_base));
    }));
    // ---- remove_if (documented mutation of the container)
    for (unsigned mask : {0x0U, 0x1U, 0x2U, 0x15U, 0x3ffU})
      r.push_back(entry0("algorithm::remove_if(mask " + std::to_string(mask) + ")", seq, [mask](Ctx &cx, int shape) {
        int const n = seq_n(shape);
        vec v = make_vec(n);
        cx.arg_mutated(v, "container");
        cx.key_fn = "algorithm::remove_if";
        cx.begin();
        bool const removed = fcppt::algorithm::remove_if(v, pred{mask});
        cx.end();
        std::vector<int> e;
        for (int i = 0; i < n; ++i)
          if (!((mask >> i) & 1U)) e.push_back(i);
        cx.expect_state(v, e, "container");
        if (removed != (static_cast<int>(e.size()) != n))
          fail(cx.key("return-value"), cx.where() + "returned " + (removed ? "true" : "false"));
      }));
    // ---- remove (documented mutation): origins congruent modulo 10 compare equal. The element is a
    // const reference parameter: an independent value (alias -1, origin 30 + key) or a reference to
    // an element of the container itself (alias = its index), which the re-arrangement moves from
    // while the comparison is still in use - the element has to be compared by a value taken before.
    // Copies of the element argument are its own business (a const lvalue); every other element of
    // the container travels by move.
    {
      struct RemoveShape { std::vector<int> origins; int alias; int ext_key; };
      static std::vector<RemoveShape> const shapes{
          {{}, -1, 3}, {{3}, -1, 3}, {{3}, 0, 0}, {{0, 10, 1}, 0, 0}, {{0, 10, 1}, 1, 0}, {{0, 1, 10, 2}, 0, 0}, {{1, 0, 2, 10, 20, 3}, 1, 0},
          {{0, 1, 2}, -1, 7}, {{0, 1, 11, 21, 2}, -1, 1}, {{5, 15, 25}, 2, 0}, {{4, 14, 5, 15, 4}, 0, 0}, {{1, 2, 3, 11, 4, 5, 21}, 0, 0}};
      r.push_back(entry0("algorithm::remove", static_cast<int>(shapes.size()), [](Ctx &cx, int shape) {
        RemoveShape const &s = shapes[static_cast<std::size_t>(shape)];
        vec v;
        v.reserve(s.origins.size());
        for (int x : s.origins) v.emplace_back(x);
        tracked const ext(30 + s.ext_key);
        bool const aliased = s.alias >= 0;
        int const target = aliased ? s.origins[static_cast<std::size_t>(s.alias)] : 30 + s.ext_key;
        cx.klass_override(aliased ? "mutable-lvalue-container+const-lvalue-element-of-it" : "mutable-lvalue-container+const-lvalue-element");
        cx.elements += static_cast<int>(s.origins.size()) + 1;
        for (int x : s.origins)
          if (x != target) cx.rvalue_origins.insert(x);
        tracked const &element = aliased ? v[static_cast<std::size_t>(s.alias)] : ext;
        cx.begin();
        bool const removed = fcppt::algorithm::remove(v, element);
        cx.end();
        std::vector<int> e;
        for (int x : s.origins)
          if (x % 10 != target % 10) e.push_back(x);
        cx.expect_state(v, e, "container");
        if (removed != (e.size() != s.origins.size()))
          fail(cx.key("return-value"), cx.where() + "returned " + (removed ? "true" : "false"));
        if (!aliased && (!ext.peek_alive() || ext.peek_origin() != target))
          fail(cx.key("const-lvalue-element|changed"), cx.where() + "the element argument was modified");
      }));
    }
    // ---- unique (documented mutation): origins congruent modulo 10 compare equal
    {
      static std::vector<std::vector<int>> const shapes{{}, {3}, {0, 10, 1}, {0, 1, 11, 21, 2}, {5, 15, 25}, {0, 1, 2}, {4, 14, 5, 15, 4}};
      r.push_back(entry0("algorithm::unique", static_cast<int>(shapes.size()), [](Ctx &cx, int shape) {
        std::vector<int> const &o = shapes[static_cast<std::size_t>(shape)];
        vec v;
        v.reserve(o.size());
        for (int x : o) v.emplace_back(x);
        cx.arg_mutated(v, "container");
        cx.begin();
        fcppt::algorithm::unique(v);
        cx.end();
        std::vector<int> e;
        for (std::size_t i = 0; i < o.size(); ++i)
          if (i == 0 || o[i] % 10 != o[i - 1] % 10) e.push_back(o[i]);
        cx.expect_state(v, e, "container");
      }));
    }
    return r;
  }();
  return f;
}

Family const &container_family()
{
  static Family const f = [] {
    Family r;
    // ---- join: "inserting the containers from _args into _first"
    r.push_back(entry2("container::join", seq, any_cat{}, any_cat{}, [](Ctx &cx, int shape, auto c1, auto c2) {
      using C1 = decltype(c1);
      using C2 = decltype(c2);
      int const n = seq_n(shape);
      vec a = make_vec(n), b = make_vec(n == 0 ? 2 : n - 1, 10);
      cx.arg<C1>(a, "first");
      cx.arg<C2>(b, "second");
      cx.begin();
      vec res = fcppt::container::join(pass<C1>(a), pass<C2>(b));
      cx.end();
      cx.result(res, cat_vec(iota(n), iota(n == 0 ? 2 : n - 1, 10)));
    }));
    // the same with an ASSOCIATIVE target (distinct keys, so every element is kept): elements of an
    // rvalue map are moved into the result, not copied
    r.push_back(entry2("container::join (map)", seq, any_cat{}, any_cat{}, [](Ctx &cx, int shape, auto c1, auto c2) {
      using C1 = decltype(c1);
      using C2 = decltype(c2);
      int const n = seq_n(shape), nb = n == 0 ? 2 : n - 1;
      std::map<int, tracked> a, b;
      for (int i = 0; i < n; ++i) a.emplace(i, tracked(i));
      for (int i = 0; i < nb; ++i) b.emplace(100 + i, tracked(10 + i));
      cx.arg<C1>(a, "first");
      cx.arg<C2>(b, "second");
      cx.key_fn = "container::join";
      cx.begin();
      std::map<int, tracked> res = fcppt::container::join(pass<C1>(a), pass<C2>(b));
      cx.end();
      cx.result(res, cat_vec(iota(n), iota(nb, 10)));
    }));
    r.push_back(entry3("container::join(3)", 3, any_cat{}, any_cat{}, any_cat{}, [](Ctx &cx, int shape, auto c1, auto c2, auto c3) {
      using C1 = decltype(c1);
      using C2 = decltype(c2);
      using C3 = decltype(c3);
      int const n = seq_n(shape);
      vec a = make_vec(n), b = make_vec(3 - n, 10), d = make_vec(n, 20);
      cx.arg<C1>(a, "first");
      cx.arg<C2>(b, "second");
      cx.arg<C3>(d, "third");
      cx.key_fn = "container::join";
      cx.begin();
      vec res = fcppt::container::join(pass<C1>(a), pass<C2>(b), pass<C3>(d));
      cx.end();
      cx.result(res, cat_vec(cat_vec(iota(n), iota(3 - n, 10)), iota(n, 20)));
    }));
    r.push_back(entry1("container::join(1)", seq, any_cat{}, [](Ctx &cx, int shape, auto c) {
      using C = decltype(c);
      int const n = seq_n(shape);
      vec a = make_vec(n);
      cx.arg<C>(a, "first");
      cx.key_fn = "container::join";
      cx.begin();
      vec res = fcppt::container::join(pass<C>(a));
      cx.end();
      cx.result(res, iota(n));
    }));
    // ---- pop_back / pop_front (documented mutation)
    r.push_back(entry0("container::pop_back", seq, [](Ctx &cx, int shape) {
      int const n = seq_n(shape);
      vec v = make_vec(n);
      cx.arg_mutated(v, "container");
      cx.begin();
      opt res = fcppt::container::pop_back(v);
      cx.end();
      cx.result(res, n == 0 ? std::vector<int>{} : std::vector<int>{n - 1});
      cx.expect_state(v, iota(n == 0 ? 0 : n - 1), "container");
    }));
    r.push_back(entry0("container::pop_front", seq, [](Ctx &cx, int shape) {
      int const n = seq_n(shape);
      std::deque<tracked> v;
      for (int i = 0; i < n; ++i) v.emplace_back(i);
      cx.arg_mutated(v, "container");
      cx.begin();
      opt res = fcppt::container::pop_front(v);
      cx.end();
      cx.result(res, n == 0 ? std::vector<int>{} : std::vector<int>{0});
      cx.expect_state(v, iota(n == 0 ? 0 : n - 1, 1), "container");
    }));
    // the same with an element type whose move constructor may throw (a copy there would mean the
    // library used move_if_noexcept / a copy instead of the documented move)
    r.push_back(entry0("container::pop_back (potentially throwing move)", seq, [](Ctx &cx, int shape) {
      int const n = seq_n(shape);
      std::vector<tracked_mt> v;
      v.reserve(8);
      for (int i = 0; i < n; ++i) v.emplace_back(i);
      cx.arg_mutated(v, "container");
      cx.key_fn = "container::pop_back";
      cx.begin();
      fcppt::optional::object<tracked_mt> res = fcppt::container::pop_back(v);
      cx.end();
      cx.result(res, n == 0 ? std::vector<int>{} : std::vector<int>{n - 1});
      cx.expect_state(v, iota(n == 0 ? 0 : n - 1), "container");
    }));
    r.push_back(entry0("container::pop_front (potentially throwing move)", seq, [](Ctx &cx, int shape) {
      int const n = seq_n(shape);
      std::list<tracked_mt> v;
      for (int i = 0; i < n; ++i) v.emplace_back(i);
      cx.arg_mutated(v, "container");
      cx.key_fn = "container::pop_front";
      cx.begin();
      fcppt::optional::object<tracked_mt> res = fcppt::container::pop_front(v);
      cx.end();
      cx.result(res, n == 0 ? std::vector<int>{} : std::vector<int>{0});
      cx.expect_state(v, iota(n == 0 ? 0 : n - 1, 1), "container");
    }));
    // ---- get_or_insert (documented mutation): shape = number of entries, key 1 present iff n > 1
    r.push_back(entry0("container::get_or_insert", seq, [](Ctx &cx, int shape) {
      int const n = seq_n(shape);
      std::map<int, tracked> m;
      for (int i = 0; i < n; ++i) m.emplace(2 * i - 1, tracked(i)); // keys -1, 1, 3, ...
      cx.arg_mutated(m, "container");
      int const key = 1;
      cx.begin();
      int const generated_before = cx.generated;
      tracked &res = fcppt::container::get_or_insert(m, key, create_fn{});
      cx.end();
      bool const present = n >= 2;
      // "the function is only called if the key is not found": a value created for a present key has
      // nowhere to go - it is constructed and thrown away (a lost element)
      if (present && cx.generated != generated_before)
        fail(cx.key("created-for-present-key"), cx.where() + "the creation function was called although the key is present; the created value is lost");
      std::vector<int> e = iota(n);
      if (!present) e.insert(e.begin() + (n == 0 ? 0 : 1), gen_base);
      cx.expect_state(m, e, "container");
      cx.result(res, {present ? 1 : gen_base});
      if (m.count(key) == 0 || &m.find(key)->second != &res)
        fail(cx.key("return-value"), cx.where() + "the returned reference is not the mapped object of the key");
    }));
    r.push_back(entry0("container::get_or_insert_with_result", seq, [](Ctx &cx, int shape) {
      int const n = seq_n(shape);
      std::map<int, tracked> m;
      for (int i = 0; i < n; ++i) m.emplace(2 * i - 1, tracked(i));
      cx.arg_mutated(m, "container");
      int const key = 3;
      cx.begin();
      int const generated_before = cx.generated;
      auto const res = fcppt::container::get_or_insert_with_result(m, key, create_fn{});
      cx.end();
      bool const present = n >= 3;
      if (present && cx.generated != generated_before)
        fail(cx.key("created-for-present-key"), cx.where() + "the creation function was called although the key is present; the created value is lost");
      std::vector<int> e = iota(n);
      if (!present) e.insert(e.begin() + std::min(n, 2), gen_base);
      cx.expect_state(m, e, "container");
      cx.result(res.element(), {present ? 2 : gen_base});
    }));
    // ---- make: "creates a container from variadic arguments by moving"
    r.push_back(entry0("container::make", 4, [](Ctx &cx, int shape) {
      tracked a(0), b(1), c(2);
      cx.begin();
      vec res = shape == 0 ? fcppt::container::make<vec>()
                : shape == 1 ? fcppt::container::make<vec>(std::move(a))
                : shape == 2 ? fcppt::container::make<vec>(std::move(a), std::move(b))
                             : fcppt::container::make<vec>(std::move(a), std::move(b), std::move(c));
      cx.end();
      cx.klass_override("rvalue-arguments");
      for (int i = 0; i < shape; ++i) cx.rvalue_origins.insert(i);
      cx.elements += shape;
      cx.result(res, iota(shape));
    }));
    // ---- make_move_range itself: iteration over the (non-const) range yields rvalues exactly once
    // each; a const move range yields const lvalues and leaves the elements alone
    r.push_back(entry0("container::make_move_range", seq, [](Ctx &cx, int shape) {
      int const n = seq_n(shape);
      vec v = make_vec(n);
      cx.arg<rv>(v, "container");
      cx.begin();
      auto range = fcppt::container::make_move_range(std::move(v));
      for (auto &&e : std::as_const(range)) absorb(e);
      for (auto &&e : range) absorb(std::forward<decltype(e)>(e));
      cx.end();
      cx.sink_only(cat_vec(mapped(iota(n), lend), iota(n)));
    }));
    return r;
  }();
  return f;
}

C05_SECTION(r_algorithm, "algorithm", algorithm_family);
C05_SECTION(r_container, "container", container_family);
}
