// VERIF: quick_shards=6
// C16 - map / fold / loop / find family of fcppt.algorithm against loop references, exhaustive over all
// sequences over {0,1,2} up to length 6 (8 thorough); the sections are in c16_transform_impl.hpp
// (shared with the heap-element variant c16_heap_transform.cpp).
#include "c16_transform_impl.hpp"
