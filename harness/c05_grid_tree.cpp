// VERIF: quick_shards=2
// C05 - generic operations conserve values: container::grid (map / apply / resize / construction),
// container::tree (construction, insertion, removal, map) and strong_typedef (construction, map,
// apply). Grids are two-dimensional with every size 0..3 x 0..3; the element at (x,y) of a w x h
// grid has origin x + y*w (results are read position by position, no storage order is assumed).
#include "c05_common.hpp"

#include <fcppt/make_strong_typedef.hpp>
#include <fcppt/reference.hpp>
#include <fcppt/strong_typedef.hpp>
#include <fcppt/strong_typedef_apply.hpp>
#include <fcppt/strong_typedef_map.hpp>
#include <fcppt/container/grid/apply.hpp>
#include <fcppt/container/grid/map.hpp>
#include <fcppt/container/grid/object.hpp>
#include <fcppt/container/grid/resize.hpp>
#include <fcppt/container/grid/static_row.hpp>
#include <fcppt/container/tree/map.hpp>
#include <fcppt/container/tree/object.hpp>
#include <fcppt/optional/object.hpp>

#include <utility>
#include <vector>

using namespace c05;

namespace
{
using grid_t = fcppt::container::grid::object<tracked, 2>;
using dim_t = grid_t::dim;
using pos_t = grid_t::pos;

int at0(pos_t const &p) { return static_cast<int>(p.x()); }
int at1(pos_t const &p) { return static_cast<int>(p.y()); }

grid_t make_grid(int w, int h, int first = 0)
{
  return grid_t{dim_t{static_cast<std::size_t>(w), static_cast<std::size_t>(h)},
                [w, first](pos_t const &p) { return tracked(first + at0(p) + at1(p) * w); }};
}
// elements in (y,x) order, read through get_unsafe(pos)
Ptrs by_pos(grid_t const &g)
{
  Ptrs r;
  for (std::size_t y = 0; y < g.size().h(); ++y)
    for (std::size_t x = 0; x < g.size().w(); ++x) r.push_back(&g.get_unsafe(pos_t{x, y}));
  return r;
}
bool has_size(grid_t const &g, int w, int h) { return g.size().w() == static_cast<std::size_t>(w) && g.size().h() == static_cast<std::size_t>(h); }

struct grid_gen
{
  tracked operator()(pos_t const &) const { return gen{}(); }
};

Family const &grid_family()
{
  static Family const f = [] {
    Family r;
    // ---- map: shape = w*4 + h
    r.push_back(entry1("grid::map", 16, any_cat{}, [](Ctx &cx, int shape, auto c) {
      using C = decltype(c);
      int const w = shape / 4, h = shape % 4;
      grid_t g = make_grid(w, h);
      cx.arg<C>(g);
      cx.begin();
      grid_t res = fcppt::container::grid::map(pass<C>(g), conv{});
      cx.end();
      if (!has_size(res, w, h)) fail(cx.key("size"), cx.where() + "result has the wrong size");
      else cx.result_ptrs(by_pos(res), mapped(iota(w * h), fwd<C>));
    }));
    // ---- apply: shape = size index * 2 + (second grid has a different size)
    r.push_back(entry2("grid::apply", 10, any_cat{}, any_cat{}, [](Ctx &cx, int shape, auto c1, auto c2) {
      using C1 = decltype(c1);
      using C2 = decltype(c2);
      static int const sizes[5][2] = {{0, 0}, {1, 1}, {3, 1}, {2, 2}, {1, 3}};
      int const w = sizes[shape / 2][0], h = sizes[shape / 2][1];
      bool const differ = shape % 2 == 1;
      grid_t a = make_grid(w, h), b = differ ? make_grid(w + 1, h, 20) : make_grid(w, h, 20);
      cx.arg<C1>(a, "first");
      cx.arg<C2>(b, "second");
      cx.begin();
      grid_t res = fcppt::container::grid::apply(conv2{}, pass<C1>(a), pass<C2>(b));
      cx.end();
      if (differ)
      {
        // "If g_1,...g_n are not of the same size, the result is an empty grid."
        cx.result(res, {});
        cx.sink_only({});
      }
      else if (!has_size(res, w, h)) fail(cx.key("size"), cx.where() + "result has the wrong size");
      else
      {
        cx.result_ptrs(by_pos(res), mapped(iota(w * h), fwd<C1>));
        cx.sink_only(mapped(iota(w * h, 20), fwd<C2>), false);
      }
    }));
    // ---- resize: shape = ((w*3 + h)*3 + nw)*3 + nh, all in 0..2 (plus one 3x3 -> 2x4 style case each way)
    r.push_back(entry1("grid::resize", 81, any_cat{}, [](Ctx &cx, int shape, auto c) {
      using C = decltype(c);
      int const nh = shape % 3, nw = shape / 3 % 3, h = shape / 9 % 3, w = shape / 27 % 3;
      grid_t g = make_grid(w, h);
      cx.arg<C>(g);
      cx.begin();
      grid_t res = fcppt::container::grid::resize(pass<C>(g), dim_t{static_cast<std::size_t>(nw), static_cast<std::size_t>(nh)}, grid_gen{});
      cx.end();
      if (!has_size(res, nw, nh))
      {
        fail(cx.key("size"), cx.where() + "result has the wrong size");
        return;
      }
      // kept positions hold the old element, the others a fresh value (call order of _init is not
      // specified: fresh values are compared as a set)
      std::vector<int> expected;
      Ptrs kept, fresh;
      int nfresh = 0;
      for (int y = 0; y < nh; ++y)
        for (int x = 0; x < nw; ++x)
        {
          tracked const *e = &res.get_unsafe(pos_t{static_cast<std::size_t>(x), static_cast<std::size_t>(y)});
          if (x < w && y < h)
          {
            kept.push_back(e);
            expected.push_back(x + y * w);
          }
          else
          {
            fresh.push_back(e);
            ++nfresh;
          }
        }
      cx.result_ptrs(kept, expected, true, "kept part of the result");
      cx.result_ptrs(fresh, iota(nfresh, gen_base), false, "new part of the result");
    }));
    // ---- construction: from a function, from a value (copies of an lvalue), from static rows
    r.push_back(entry0("grid::object(dim, function)", 16, [](Ctx &cx, int shape) {
      int const w = shape / 4, h = shape % 4;
      cx.begin();
      grid_t res{dim_t{static_cast<std::size_t>(w), static_cast<std::size_t>(h)}, grid_gen{}};
      cx.end();
      cx.result(res, iota(w * h, gen_base), false);
    }));
    r.push_back(entry1("grid::object(dim, value)", 16, lvalues{}, [](Ctx &cx, int shape, auto c) {
      using C = decltype(c);
      int const w = shape / 4, h = shape % 4;
      tracked t(0);
      cx.arg<C>(t, "value");
      cx.begin();
      grid_t res{dim_t{static_cast<std::size_t>(w), static_cast<std::size_t>(h)}, pass<C>(t)};
      cx.end();
      cx.result(res, std::vector<int>(static_cast<std::size_t>(w * h), 0));
    }));
    r.push_back(entry2("grid::object(static rows)", 2, any_cat{}, any_cat{}, [](Ctx &cx, int shape, auto c1, auto c2) {
      using C1 = decltype(c1);
      using C2 = decltype(c2);
      tracked a(0), b(1), d(2), e(3);
      cx.arg<C1>(a, "value");
      cx.arg<C2>(b, "value");
      cx.arg<C1>(d, "value");
      cx.arg<C2>(e, "value");
      cx.begin();
      if (shape == 0)
      {
        grid_t res{fcppt::container::grid::static_row(pass<C1>(a), pass<C2>(b)), fcppt::container::grid::static_row(pass<C1>(d), pass<C2>(e))};
        cx.end();
        if (!has_size(res, 2, 2)) fail(cx.key("size"), cx.where() + "result has the wrong size");
        else cx.result_ptrs(by_pos(res), {0, 1, 2, 3});
      }
      else
      {
        grid_t res{fcppt::container::grid::static_row(pass<C1>(a), pass<C2>(b), pass<C1>(d), pass<C2>(e))};
        cx.end();
        if (!has_size(res, 4, 1)) fail(cx.key("size"), cx.where() + "result has the wrong size");
        else cx.result_ptrs(by_pos(res), {0, 1, 2, 3});
      }
    }));
    // ---- whole-grid copy / move
    r.push_back(entry1("grid::object(grid)", 3, any_cat{}, [](Ctx &cx, int shape, auto c) {
      using C = decltype(c);
      int const w = shape, h = shape == 2 ? 2 : 1;
      grid_t g = make_grid(w, h);
      cx.arg<C>(g);
      cx.begin();
      grid_t res{pass<C>(g)};
      cx.end();
      cx.result_ptrs(by_pos(res), iota(w * h));
    }));
    return r;
  }();
  return f;
}

// --------------------------------------------------------------------------------------- tree
using tree_t = fcppt::container::tree::object<tracked>;

// shape 0: a leaf (origin 0); 1: root + one child; 2: root, three children, the middle one with a
// grandchild (pre-order origins 0..4)
tree_t make_tree(int shape, int first = 0)
{
  tree_t t{tracked(first)};
  if (shape == 1) t.push_back(tracked(first + 1));
  if (shape == 2)
  {
    t.push_back(tracked(first + 1));
    tree_t mid{tracked(first + 2)};
    mid.push_back(tracked(first + 3));
    t.push_back(std::move(mid));
    t.push_back(tracked(first + 4));
  }
  return t;
}
int tree_count(int shape) { return shape == 0 ? 1 : shape == 1 ? 2 : 5; }

Family const &tree_family()
{
  static Family const f = [] {
    Family r;
    r.push_back(entry1("tree::object(value)", 1, any_cat{}, [](Ctx &cx, int, auto c) {
      using C = decltype(c);
      tracked t(0);
      cx.arg<C>(t, "value");
      cx.begin();
      tree_t res{pass<C>(t)};
      cx.end();
      cx.result(res, {0});
    }));
    r.push_back(entry0("tree::object(value, children)", 3, [](Ctx &cx, int shape) {
      tracked t(10);
      tree_t::child_list children;
      if (shape >= 1) children.push_back(make_tree(0, 0));
      if (shape == 2) children.push_back(make_tree(2, 1));
      cx.arg<rv>(t, "value");
      cx.arg<rv>(children, "children");
      cx.begin();
      tree_t res{std::move(t), std::move(children)};
      cx.end();
      cx.result(res, cat_vec({10}, iota(shape == 0 ? 0 : shape == 1 ? 1 : 6)));
      for (tree_t const &child : res)
        if (!child.parent().has_value() || &child.parent().get_unsafe().get() != &res)
          fail(cx.key("parent"), cx.where() + "a child does not point at the new root");
    }));
    r.push_back(entry1("tree::object(tree)", 3, any_cat{}, [](Ctx &cx, int shape, auto c) {
      using C = decltype(c);
      tree_t t = make_tree(shape);
      cx.arg<C>(t);
      cx.begin();
      tree_t res{pass<C>(t)};
      cx.end();
      cx.result(res, iota(tree_count(shape)));
    }));
    // insertion of a value: shape = which member function
    r.push_back(entry1("tree::push_back/push_front/insert/value(value)", 4, any_cat{}, [](Ctx &cx, int shape, auto c) {
      using C = decltype(c);
      tree_t t = make_tree(1);
      tracked v(9);
      cx.arg_mutated(t, "tree");
      cx.arg<C>(v, "value");
      cx.key_fn = shape == 0 ? "tree::push_back" : shape == 1 ? "tree::push_front" : shape == 2 ? "tree::insert" : "tree::value";
      cx.begin();
      if (shape == 0) t.push_back(pass<C>(v));
      else if (shape == 1) t.push_front(pass<C>(v));
      else if (shape == 2) t.insert(t.begin(), pass<C>(v));
      else t.value(pass<C>(v));
      cx.end();
      cx.expect_state(t, shape == 0 ? std::vector<int>{0, 1, 9} : shape == 3 ? std::vector<int>{9, 1} : std::vector<int>{0, 9, 1}, "tree");
    }));
    // insertion of a subtree (rvalue only)
    r.push_back(entry0("tree::push_back/push_front/insert(tree)", 3, [](Ctx &cx, int shape) {
      tree_t t = make_tree(1);
      tree_t sub = make_tree(2, 10);
      cx.arg_mutated(t, "tree");
      cx.arg<rv>(sub, "subtree");
      cx.key_fn = shape == 0 ? "tree::push_back" : shape == 1 ? "tree::push_front" : "tree::insert";
      cx.begin();
      if (shape == 0) t.push_back(std::move(sub));
      else if (shape == 1) t.push_front(std::move(sub));
      else t.insert(t.end(), std::move(sub));
      cx.end();
      cx.expect_state(t, shape == 1 ? cat_vec({0}, cat_vec(iota(5, 10), {1})) : cat_vec({0, 1}, iota(5, 10)), "tree");
    }));
    // assignment: 0 move from an unrelated tree, 1 move from the tree's own (middle) child - "replace a
    // node by one of its sub-trees": the source is owned by the target -, 2 (copy from that child: an
    // explicit copy of elements of the mutated tree, which the copy accounting of this family has no
    // category for; C09 covers it) skipped, 3 copy from an unrelated lvalue tree (which stays as it
    // was), 4 self move-assignment through an alias keeps everything
    r.push_back(entry0("tree::operator=", 5, [](Ctx &cx, int shape) {
      if (shape == 2) return;
      tree_t t = make_tree(2);
      tree_t other = make_tree(1, 10);
      cx.arg_mutated(t, "tree");
      if (shape == 0) cx.arg<rv>(other, "source");
      if (shape == 3) cx.arg<lv>(other, "source");
      cx.begin();
      if (shape == 0) t = std::move(other);
      else if (shape == 1) t = std::move(*std::next(t.begin()));
      else if (shape == 3) t = other;
      else
      {
        tree_t &alias = t;
        t = std::move(alias);
      }
      cx.end();
      cx.expect_state(t, shape == 0 || shape == 3 ? std::vector<int>{10, 11} : shape == 4 ? iota(5) : std::vector<int>{2, 3}, "tree");
      for (tree_t const &child : t)
        if (!child.parent().has_value() || &child.parent().get_unsafe().get() != &t)
          fail(cx.key("parent"), cx.where() + "a child does not point at the assigned-to node");
    }));
    // copy assignment from a const reference to one of the tree's own sub-trees (shape 0: the middle
    // child 2[3]; 1: that child's child 3): the source is an argument passed by const reference and
    // is owned by the target, so it has to be copied before the old children are released - a copy
    // taken afterwards reads destroyed elements ("copies-moved-from" / ASan). The copies themselves
    // are what copy assignment is documented to do, so the origins are not registered as travelling
    // by move; the post-state must be exactly the copied sub-tree with correct parent links.
    r.push_back(entry0("tree::operator=(const own sub-tree)", 2, [](Ctx &cx, int shape) {
      tree_t t = make_tree(2);
      cx.klass_override("const-lvalue-descendant");
      cx.elements += 5;
      tree_t const &mid = *std::next(t.begin());
      tree_t const &src = shape == 0 ? mid : mid.front().get_unsafe().get();
      cx.begin();
      t = src;
      cx.end();
      cx.expect_state(t, shape == 0 ? std::vector<int>{2, 3} : std::vector<int>{3}, "tree");
      for (tree_t const &child : t)
        if (!child.parent().has_value() || &child.parent().get_unsafe().get() != &t)
          fail(cx.key("parent"), cx.where() + "a child does not point at the assigned-to node");
    }));
    // removal: pop_back / pop_front / release
    r.push_back(entry0("tree::pop_back/pop_front/release", 6, [](Ctx &cx, int shape) {
      int const op = shape % 3;
      bool const empty = shape >= 3;
      tree_t t = make_tree(empty ? 0 : 2);
      cx.arg_mutated(t, "tree");
      cx.key_fn = op == 0 ? "tree::pop_back" : op == 1 ? "tree::pop_front" : "tree::release";
      cx.begin();
      if (op == 2)
      {
        if (empty)
        {
          cx.end();
          return;
        }
        tree_t res = t.release(std::next(t.begin()));
        cx.end();
        cx.result(res, {2, 3});
        cx.expect_state(t, {0, 1, 4}, "tree");
        if (res.parent().has_value()) fail(cx.key("parent"), cx.where() + "the released tree still has a parent");
      }
      else
      {
        tree_t::optional_object res = op == 0 ? t.pop_back() : t.pop_front();
        cx.end();
        cx.result(res, empty ? std::vector<int>{} : std::vector<int>{op == 0 ? 4 : 1});
        cx.expect_state(t, empty ? std::vector<int>{0} : op == 0 ? std::vector<int>{0, 1, 2, 3} : std::vector<int>{0, 2, 3, 4}, "tree");
      }
    }));
    // ---- map: takes the tree by const reference; elements are lent to the function
    r.push_back(entry1("tree::map", 3, any_cat{}, [](Ctx &cx, int shape, auto c) {
      using C = decltype(c);
      tree_t t = make_tree(shape);
      // an rvalue tree binds to the const reference parameter: nothing may be moved or copied
      cx.arg<C>(t);
      cx.begin();
      tree_t res = fcppt::container::tree::map<tree_t>(pass<C>(t), conv{});
      cx.end();
      cx.result(res, mapped(iota(tree_count(shape)), lend));
    }));
    return r;
  }();
  return f;
}

// ------------------------------------------------------------------------------ strong_typedef
FCPPT_MAKE_STRONG_TYPEDEF(tracked, strong_t);

Family const &strong_typedef_family()
{
  static Family const f = [] {
    Family r;
    r.push_back(entry1("strong_typedef(value)", 1, any_cat{}, [](Ctx &cx, int, auto c) {
      using C = decltype(c);
      tracked t(0);
      cx.arg<C>(t, "value");
      cx.key_fn = "strong_typedef";
      cx.begin();
      strong_t res{pass<C>(t)};
      cx.end();
      cx.result(res, {0});
    }));
    r.push_back(entry1("strong_typedef(strong_typedef)", 1, any_cat{}, [](Ctx &cx, int, auto c) {
      using C = decltype(c);
      strong_t t{tracked(0)};
      cx.arg<C>(t);
      cx.key_fn = "strong_typedef";
      cx.begin();
      strong_t res{pass<C>(t)};
      cx.end();
      cx.result(res, {0});
    }));
    r.push_back(entry1("strong_typedef_map", 1, any_cat{}, [](Ctx &cx, int, auto c) {
      using C = decltype(c);
      strong_t t{tracked(0)};
      cx.arg<C>(t);
      cx.begin();
      strong_t res = fcppt::strong_typedef_map(pass<C>(t), conv{});
      cx.end();
      cx.result(res, {fwd<C>(0)});
    }));
    r.push_back(entry2("strong_typedef_apply", 1, any_cat{}, any_cat{}, [](Ctx &cx, int, auto c1, auto c2) {
      using C1 = decltype(c1);
      using C2 = decltype(c2);
      strong_t a{tracked(0)}, b{tracked(1)};
      cx.arg<C1>(a, "first");
      cx.arg<C2>(b, "second");
      cx.begin();
      strong_t res = fcppt::strong_typedef_apply(conv2{}, pass<C1>(a), pass<C2>(b));
      cx.end();
      cx.result_and_sink(res, {fwd<C1>(0), fwd<C2>(1)});
    }));
    return r;
  }();
  return f;
}

C05_SECTION(r_grid, "grid", grid_family);
C05_SECTION(r_tree, "tree", tree_family);
C05_SECTION(r_strong_typedef, "strong_typedef", strong_typedef_family);
}
