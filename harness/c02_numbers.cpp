// VERIF: lib quick_shards=1
// C02 - the numeric leaf parsers uint<T> / int_<T> at the edges of T. The run-time generated
// grammars of c02_peg.hpp only ever see the digit '1'; here the decimal strings are built around
// the limits of every integer type. Documented semantics (uint_decl.hpp / int_decl.hpp): a
// (signed) integer string is [ '-' ] digit+ (all digits are taken: the element is a lexeme of
// +digits); "the string is converted into an integer using fcppt::extract_from_string", which
// yields a value exactly when the number is representable in T. Hence
//   uint<T> on  0*d  succeeds iff d <= max(T), with value d;
//   int_<T> on [-]0*d succeeds iff the signed number lies in [min(T), max(T)], with that value;
//   in  uint<T> | +digits  (ordered choice) the second alternative is taken exactly when the first
//   fails, and yields the whole digit string.
#include "common/verif.hpp"

#include <fcppt/make_cref.hpp>
#include <fcppt/parse/digits.hpp>
#include <fcppt/parse/int.hpp>
#include <fcppt/parse/basic_literal.hpp>
#include <fcppt/parse/parse_string.hpp>
#include <fcppt/parse/uint.hpp>
#include <fcppt/parse/operators/alternative.hpp>
#include <fcppt/parse/operators/repetition_plus.hpp>
#include <fcppt/parse/operators/sequence.hpp>
#include <fcppt/either/object.hpp>
#include <fcppt/variant/object.hpp>
#include <fcppt/variant/holds_type.hpp>
#include <fcppt/variant/get_unsafe.hpp>

#include <cstdint>
#include <limits>
#include <string>
#include <type_traits>

using namespace verif;
namespace fp = fcppt::parse;

namespace
{
using u128 = unsigned __int128;

std::string dec(u128 v)
{
  if (v == 0) return "0";
  std::string r;
  while (v != 0)
  {
    r.insert(r.begin(), static_cast<char>('0' + static_cast<int>(v % 10)));
    v /= 10;
  }
  return r;
}
template <typename Ch>
std::basic_string<Ch> widen(std::string const &s)
{
  std::basic_string<Ch> r;
  for (char c : s) r += static_cast<Ch>(c);
  return r;
}
template <typename Ch>
std::string narrow(std::basic_string<Ch> const &s)
{
  std::string r;
  for (Ch c : s) r += static_cast<char>(c);
  return r;
}

// the magnitudes: around 0, around max(T), around max(T)+1 (= |min(T)| for signed T), the values
// just above max that a "value > max/10" overflow guard lets through, powers of ten, and numbers
// with far more digits than T has
constexpr int n_bases = 6;
constexpr int n_deltas = 61; // -30 .. 30
template <typename T>
bool magnitude(int base, int delta_idx, u128 &out)
{
  u128 const m = static_cast<u128>(std::numeric_limits<T>::max());
  int const d = delta_idx - 30;
  u128 b = 0;
  switch (base)
  {
  case 0: b = 30; break;
  case 1: b = m; break;
  case 2: b = m / 10 * 10 + 40; break;
  case 3: b = m * 10 + 30; break; // one digit more
  case 4:
  { // the power of ten with as many digits as max(T)
    b = 1;
    while (b * 10 <= m) b *= 10;
    b += 30;
    break;
  }
  default: b = (m + 1) * 2 + 30; break; // wraps to a small number in T
  }
  if (d < 0 && static_cast<u128>(-d) > b) return false;
  out = d < 0 ? b - static_cast<u128>(-d) : b + static_cast<u128>(d);
  return true;
}

template <typename T>
char const *tname()
{
  if constexpr (std::is_same_v<T, unsigned short>) return "unsigned short";
  else if constexpr (std::is_same_v<T, unsigned>) return "unsigned";
  else if constexpr (std::is_same_v<T, unsigned long>) return "unsigned long";
  else if constexpr (std::is_same_v<T, unsigned long long>) return "unsigned long long";
  else if constexpr (std::is_same_v<T, short>) return "short";
  else if constexpr (std::is_same_v<T, int>) return "int";
  else if constexpr (std::is_same_v<T, long>) return "long";
  else return "long long";
}

struct Case
{
  int base, delta, zeros, neg, form, wide;
};

template <typename T>
std::string text_of(Case const &c, bool &valid)
{
  u128 v = 0;
  valid = magnitude<T>(c.base, c.delta, v);
  return std::string(c.neg ? "-" : "") + std::string(static_cast<std::size_t>(c.zeros), '0') + dec(v);
}

template <typename T, typename Ch>
void one_case(Case const &c)
{
  u128 v = 0;
  if (!magnitude<T>(c.base, c.delta, v)) { skip(); return; }
  constexpr bool is_signed = std::is_signed_v<T>;
  if (!is_signed && c.neg) { skip(); return; } // "-5" for uint is plain rejection of '-': covered by the dynamic family
  u128 const m = static_cast<u128>(std::numeric_limits<T>::max());
  bool const fits = c.neg ? v <= m + 1 : v <= m;
  // non-trivial: within 30 of a limit of T, i.e. everything except base 0 with small numbers
  count(c.base != 0);
  std::string const digits = std::string(static_cast<std::size_t>(c.zeros), '0') + dec(v);
  std::string const text = std::string(c.neg ? "-" : "") + digits;
  std::string const who = std::string(is_signed ? "int_<" : "uint<") + tname<T>() + ">";
  auto const expected_value = [&]() -> T {
    if (!c.neg) return static_cast<T>(v);
    // -(v) without overflow: v <= m + 1
    return v == m + 1 ? std::numeric_limits<T>::min() : static_cast<T>(-static_cast<long long>(v));
  };
  auto const number_parser = [] {
    if constexpr (is_signed) return fp::int_<T>{};
    else return fp::uint<T>{};
  };
  if (c.form == 0)
  {
    auto const res = fp::parse_string(number_parser(), widen<Ch>(text));
    if (res.has_success() != fits)
      fail(std::string(is_signed ? "parse::int_" : "parse::uint") + "|representable-iff-accepted|" + (fits ? "representable-rejected" : "unrepresentable-accepted"),
           who + " on \"" + text + "\": " + (res.has_success() ? "accepted with value " + std::to_string(res.get_success_unsafe()) : "rejected") + ", the number is " + (fits ? "" : "not ") + "representable");
    else if (fits && res.get_success_unsafe() != expected_value())
      fail(std::string(is_signed ? "parse::int_" : "parse::uint") + "|value", who + " on \"" + text + "\" = " + std::to_string(res.get_success_unsafe()) + ", expected " + std::to_string(expected_value()));
  }
  else
  {
    // ordered choice: number | [-] +digits ; the second alternative exactly when the first fails
    auto const mk = [&] {
      if constexpr (is_signed) return number_parser() | (fp::basic_literal<Ch>{static_cast<Ch>('-')} >> +fp::digits<Ch>()) | +fp::digits<Ch>();
      else return number_parser() | +fp::digits<Ch>();
    };
    auto const res = fp::parse_string(mk(), widen<Ch>(text));
    if (!res.has_success())
    {
      fail(std::string(is_signed ? "parse::int_" : "parse::uint") + "|alternative|no-backtracking", who + " | digits on \"" + text + "\" failed although the digit-string alternative matches");
      return;
    }
    auto const &var = res.get_success_unsafe();
    bool const took_number = fcppt::variant::holds_type<T>(var);
    if (took_number != fits)
      fail(std::string(is_signed ? "parse::int_" : "parse::uint") + "|alternative|" + (fits ? "representable-rejected" : "unrepresentable-accepted"),
           who + " | digits on \"" + text + "\": " + (took_number ? "number alternative taken with value " + std::to_string(fcppt::variant::get_unsafe<T>(var)) : "digit-string alternative taken") +
               ", the number is " + (fits ? "" : "not ") + "representable");
    else if (took_number)
    {
      if (fcppt::variant::get_unsafe<T>(var) != expected_value())
        fail(std::string(is_signed ? "parse::int_" : "parse::uint") + "|alternative|value", who + " | digits on \"" + text + "\" = " + std::to_string(fcppt::variant::get_unsafe<T>(var)));
    }
    else if (narrow<Ch>(fcppt::variant::get_unsafe<std::basic_string<Ch>>(var)) != digits)
      fail(std::string(is_signed ? "parse::int_" : "parse::uint") + "|alternative|digit-string", who + " | digits on \"" + text + "\": digit string \"" + narrow<Ch>(fcppt::variant::get_unsafe<std::basic_string<Ch>>(var)) + "\"");
  }
}

constexpr int n_types = 8;
template <typename F>
void with_type(int t, F const &f)
{
  switch (t)
  {
  case 0: f(static_cast<unsigned short *>(nullptr)); break;
  case 1: f(static_cast<unsigned *>(nullptr)); break;
  case 2: f(static_cast<unsigned long *>(nullptr)); break;
  case 3: f(static_cast<unsigned long long *>(nullptr)); break;
  // int_<short> does not compile (-_value is an int): a compile-time-only defect, see DESIGN.md 9.5
  case 4:
  case 5: f(static_cast<int *>(nullptr)); break;
  case 6: f(static_cast<long *>(nullptr)); break;
  default: f(static_cast<long long *>(nullptr)); break;
  }
}
i64 at(Ints const &c, std::size_t i, i64 n)
{
  i64 const v = i < c.size() ? c[i] : 0;
  return ((v % n) + n) % n;
}
void eval(Ints const &ints)
{
  int const t = static_cast<int>(at(ints, 0, n_types));
  Case const c{static_cast<int>(at(ints, 1, n_bases)), static_cast<int>(at(ints, 2, n_deltas)), static_cast<int>(at(ints, 3, 3)),
               static_cast<int>(at(ints, 4, 2)),       static_cast<int>(at(ints, 5, 2)),        static_cast<int>(at(ints, 6, 2))};
  with_type(t, [&](auto *p) {
    using T = std::remove_pointer_t<decltype(p)>;
    if (c.wide) one_case<T, wchar_t>(c);
    else one_case<T, char>(c);
  });
}

Reg const r_numbers{
    "numeric_leaves_at_type_limits", Kind::exhaustive,
    "a decimal string within 30 of max(T), of max(T)+1, of the overflow-guard window above max(T), of a power of ten or of a number with more digits than T",
    [] {
      for (i64 t = 0; t < n_types; ++t)
      {
        if (t == 4) continue;
        for (i64 b = 0; b < n_bases; ++b)
          for (i64 d = 0; d < n_deltas; ++d)
            for (i64 z = 0; z < 3; ++z)
              for (i64 n = 0; n < 2; ++n)
                for (i64 f = 0; f < 2; ++f)
                  for (i64 w = 0; w < 2; ++w)
                  {
                    Ints const c{t, b, d, z, n, f, w};
                    cur({t, b, d, z, n, f, w});
                    eval(c);
                  }
      }
    },
    eval,
    [](Ints const &ints) {
      int const t = static_cast<int>(at(ints, 0, n_types));
      Case const c{static_cast<int>(at(ints, 1, n_bases)), static_cast<int>(at(ints, 2, n_deltas)), static_cast<int>(at(ints, 3, 3)),
                   static_cast<int>(at(ints, 4, 2)),       static_cast<int>(at(ints, 5, 2)),        static_cast<int>(at(ints, 6, 2))};
      std::string r;
      with_type(t, [&](auto *p) {
        using T = std::remove_pointer_t<decltype(p)>;
        bool valid = false;
        std::string const text = text_of<T>(c, valid);
        r = std::string(std::is_signed_v<T> ? "int_<" : "uint<") + tname<T>() + ">" + (c.form ? " | digit string" : "") + " on " + (c.wide ? "L" : "") + "\"" + text + "\"";
      });
      return r;
    }};
}
