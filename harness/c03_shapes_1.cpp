// VERIF: lib rc quick_shards=1
// C03 - parser shapes, part 1 of 8 (see c03_options.hpp).
#include "c03_options.hpp"
namespace
{
using namespace c03;
using S = std::string;
c03::shape_list make_shapes()
{
  c03::shape_list s;
  s.push_back(c03::mk_shape(5, "many(arg<str>)", many(arg<la, S>("a"))));
  s.push_back(c03::mk_shape(6, "optional(prod(sw, arg<str>))", optional(prod(sw<la>("f", "ff"), arg<lb, S>("b")))));
  s.push_back(c03::mk_shape(7, "many(prod(arg<str>, arg<str>))", many(prod(arg<la, S>("a"), arg<lb, S>("b")))));
  s.push_back(c03::mk_shape(8, "sum(usw, arg<int>)", sum<lc>(usw<la>("", "ff"), arg<lb, int>("b"))));
  s.push_back(c03::mk_shape(9, "cmds(optional(opt<str>), c1: arg<str>, c2: unit)", cmds<t1, t2>(optional(opt<la, S>("o", "oo", std::nullopt)), "c1", arg<lb, S>("b"), "c2", unit<lc>())));
  return s;
}
}
C03_TU(1, make_shapes)
