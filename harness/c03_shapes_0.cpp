// VERIF: lib rc quick_shards=1
// C03 - parser shapes, part 0 of 8 (see c03_options.hpp).
#include "c03_options.hpp"
namespace
{
using namespace c03;
using S = std::string;
c03::shape_list make_shapes()
{
  c03::shape_list s;
  s.push_back(c03::mk_shape(0, "arg<int>", arg<la, int>("a")));
  s.push_back(c03::mk_shape(1, "prod(arg<str>, sw)", prod(arg<la, S>("a"), sw<lb>("f", "ff"))));
  s.push_back(c03::mk_shape(2, "prod(opt<int>, arg<str>)", prod(opt<la, int>("o", "oo", std::nullopt), arg<lb, S>("b"))));
  s.push_back(c03::mk_shape(3, "prod(opt<str> default, sw)", prod(opt<la, S>("o", "oo", S("d")), sw<lb>("f", "ff"))));
  s.push_back(c03::mk_shape(4, "optional(arg<int>)", optional(arg<la, int>("a"))));
  return s;
}
}
C03_TU(0, make_shapes)
