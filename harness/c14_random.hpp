// C14 - decoding of random cases and the square-matrix case shared by c14_mat3.cpp / c14_mat4.cpp.
#ifndef VERIF_C14_RANDOM_HPP
#define VERIF_C14_RANDOM_HPP

#include "c14_matrix.hpp"

namespace c14
{
using verif::Choices;
using verif::u64;
using verif::count;
using verif::fail;

// entries in [-9,9] packed seven to a 32-bit word (base 19; digit 0 is the entry 0, so that shrinking
// the words toward 0 shrinks the matrices toward null)
class Digits
{
public:
  explicit Digits(Choices &c) : c_(&c) {}
  int next()
  {
    if (left_ == 0)
    {
      w_ = c_->raw() & 0xffffffffULL;
      left_ = 7;
    }
    int const d = static_cast<int>(w_ % 19);
    w_ /= 19;
    --left_;
    return d <= 9 ? d : d - 19;
  }
  template <typename T, std::size_t N>
  std::array<T, N> arr()
  {
    std::array<T, N> r{};
    for (T &x : r) x = static_cast<T>(next());
    return r;
  }

private:
  Choices *c_;
  u64 w_{0};
  int left_{0};
};

template <typename To, typename From, std::size_t N>
std::array<To, N> widen(std::array<From, N> const &a)
{
  std::array<To, N> r{};
  for (std::size_t i = 0; i < N; ++i) r[i] = a[i];
  return r;
}

// ---------------------------------------------------------------- square N x N
template <std::size_t N>
struct SqCase
{
  int mode;
  int k;
  Mat<int, N, N> a, b, c;
  Vec<int, N> v;
};
template <std::size_t N>
SqCase<N> decode_sq(Ints const &in)
{
  Choices ch(in);
  SqCase<N> s;
  u64 const w = ch.raw();
  s.mode = static_cast<int>(w & 63);
  int const kd = static_cast<int>((w >> 6) % 19);
  s.k = kd <= 9 ? kd : kd - 19;
  Digits d(ch);
  s.a = d.arr<int, N * N>();
  s.b = d.arr<int, N * N>();
  s.c = d.arr<int, N * N>();
  s.v = d.arr<int, N>();
  return s;
}
template <std::size_t N>
void sq_one(Ints const &in)
{
  SqCase<N> const s = decode_sq<N>(in);
  count(!is_diagonal<int, N>(s.a) || !is_diagonal<int, N>(s.b) || !is_diagonal<int, N>(s.c));
  check_single<int, N>(s.a, s.mode, s.v, s.k);
  // |det| of a product of two N x N matrices with entries in [-9,9]: 3x3: <= 6*243^3 fits int; 4x4 does not
  check_pair<int, N>(s.a, s.b, s.mode >> 1, s.v, N <= 3);
  check_triple<int, N>(s.a, s.b, s.c, s.mode >> 2);
  if constexpr (N == 4)
  {
    // the determinant / adjugate product rules over long
    using L = long;
    auto const la = widen<L>(s.a), lb = widen<L>(s.b);
    int const mode = s.mode >> 3;
    auto const prod = f_mul<L, 4, 4, 4>(mode, la, lb);
    long long const da = f_det<L, 4>(mode, la), db = f_det<L, 4>(mode >> 1, lb), dab = f_det<L, 4>(mode, prod);
    if (dab != da * db || dab != r_det<L, 4>(r_mul<L, 4, 4, 4>(la, lb)))
      fail("matrix::determinant|det(AB)=det(A)*det(B)|4x4", "A = " + show_arr(s.a, 4) + ", B = " + show_arr(s.b, 4) + ": " + std::to_string(dab) + " vs " + std::to_string(da) + "*" + std::to_string(db));
    int const rmode = ((mode & 1) << 1) | ((mode >> 1) & 1);
    if (f_adj<L, 4>(mode, prod) != f_mul<L, 4, 4, 4>(rmode, f_adj<L, 4>(mode >> 1, lb), f_adj<L, 4>(mode, la)))
      fail("matrix::adjugate|adj(AB)=adj(B)*adj(A)|4x4", "A = " + show_arr(s.a, 4) + ", B = " + show_arr(s.b, 4));
    auto const adjp = f_adj<L, 4>(mode >> 1, prod);
    if (f_mul<L, 4, 4, 4>(mode, prod, adjp) != r_scale(r_identity<L, 4>(), static_cast<L>(dab)))
      fail("matrix::adjugate|A*adj(A)=det(A)*I|4x4", "A = " + show_arr(prod, 4));
  }
}
template <std::size_t N>
std::string sq_describe(Ints const &in)
{
  SqCase<N> const s = decode_sq<N>(in);
  return dims<N, N>() + " A = " + show_arr(s.a, N) + ", B = " + show_arr(s.b, N) + ", C = " + show_arr(s.c, N) + ", v = " + show_arr(s.v) + ", k = " + std::to_string(s.k) +
         ", storage bits " + std::to_string(s.mode);
}
char const *const sq_rule =
    "A, B, C with entries in [-9,9], a vector, a scalar, a storage choice per operand; single-matrix, pair and triple laws; non-trivial: one of A, B, C is not diagonal (null, identity, diagonal excluded)";
}

#endif
