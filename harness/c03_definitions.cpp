// VERIF: lib quick_shards=1
// C03 - every well-formed parser definition (distinct names, distinct active/inactive values) can
// be constructed for every value type, and ill-formed ones are rejected with the documented
// exception types (fcppt::options::duplicate_names / fcppt::options::exception).
#include "c03_options.hpp"

namespace
{
using namespace c03;
using S = std::string;
char const *const shorts[] = {"", "f", "ff", "g"};
char const *const longs[] = {"ff", "g"};

template <typename T>
T val(int i);
template <>
int val<int>(int i) { return i; }
template <>
S val<S>(int i) { return i == 0 ? S("on") : (i == 1 ? S("off") : S()); }
template <>
color val<color>(int i) { return static_cast<color>(i); }
template <>
unsigned val<unsigned>(int i) { return static_cast<unsigned>(i); }

enum class outcome { ok, duplicate, other_options_exception, foreign };
template <typename F>
outcome attempt(F &&f, std::string &what)
{
  try
  {
    f();
    return outcome::ok;
  }
  catch (fo::duplicate_names const &e)
  {
    what = e.string();
    return outcome::duplicate;
  }
  catch (fo::exception const &e)
  {
    what = e.string();
    return outcome::other_options_exception;
  }
  catch (std::exception const &e)
  {
    what = e.what();
    return outcome::foreign;
  }
  catch (...)
  {
    what = "unknown exception";
    return outcome::foreign;
  }
}
char const *name(outcome o)
{
  switch (o)
  {
  case outcome::ok: return "constructed";
  case outcome::duplicate: return "duplicate_names";
  case outcome::other_options_exception: return "options::exception";
  default: return "foreign exception";
  }
}
void expect(outcome got, outcome want, std::string const &site, std::string const &descr, std::string const &what)
{
  if (got != want)
    fail("options::" + site + "|definition|" + (want == outcome::ok ? "well-formed-rejected" : (got == outcome::ok ? "ill-formed-accepted" : "wrong-exception-type")),
         descr + ": " + name(got) + (what.empty() ? "" : " (" + what + ")") + ", expected " + name(want));
}

template <typename T>
void flag_one(char const *tname, int si, int li, int ai, int ii)
{
  std::string const s = shorts[si], l = longs[li];
  using F = fo::flag<la, T>;
  std::string what;
  std::string const descr = std::string("flag<") + tname + ">(short '" + s + "', long '" + l + "', active #" + std::to_string(ai) + ", inactive #" + std::to_string(ii) + ")";
  outcome const want = s == l ? outcome::duplicate : (ai == ii ? outcome::other_options_exception : outcome::ok);
  outcome const got = attempt(
      [&] {
        F const f{osn(s), fo::long_name{S(l)}, typename F::active_value{val<T>(ai)}, typename F::inactive_value{val<T>(ii)}, fo::optional_help_text{}};
        // a constructed flag must work: [] -> inactive, [--long] -> active
        auto const r0 = fo::parse(f, fcppt::args_vector{});
        auto const r1 = fo::parse(f, fcppt::args_vector{"--" + l});
        std::string const e0 = fcppt::either::match(r0, [](fo::error const &) { return S("FAIL"); }, [](auto const &r) { return render(fcppt::record::get<la>(r)); });
        std::string const e1 = fcppt::either::match(r1, [](fo::error const &) { return S("FAIL"); }, [](auto const &r) { return render(fcppt::record::get<la>(r)); });
        if (e0 != render(val<T>(ii)) || e1 != render(val<T>(ai)))
          fail("options::flag|definition|constructed-flag-wrong-values", "flag yields " + e0 + " / " + e1 + " instead of inactive / active value");
      },
      what);
  expect(got, want, "flag", descr, what);
}
template <typename T>
void option_one(char const *tname, int si, int li, int di)
{
  std::string const s = shorts[si], l = longs[li];
  using O = fo::option<la, T>;
  std::string what;
  outcome const want = s == l ? outcome::duplicate : outcome::ok;
  outcome const got = attempt(
      [&] {
        O const o{osn(s), fo::long_name{S(l)}, di < 0 ? fo::no_default_value<T>() : fo::make_default_value(fcppt::optional::object<T>{val<T>(di)}), fo::optional_help_text{}};
        auto const r0 = fo::parse(o, fcppt::args_vector{});
        bool const ok0 = r0.has_success();
        if (ok0 != (di >= 0)) fail("options::option|definition|default-value", "option without arguments: wrong presence of the default");
      },
      what);
  expect(got, want, "option", std::string("option<") + tname + ">(short '" + s + "', long '" + l + "', default #" + std::to_string(di) + ")", what);
}
void one(Ints const &c)
{
  int const kind = static_cast<int>(c.at(0)), si = static_cast<int>(c.at(1)) % 4, li = static_cast<int>(c.at(2)) % 2, x = static_cast<int>(c.at(3)) % 3, y = static_cast<int>(c.at(4)) % 3;
  count(std::string(shorts[si]) == longs[li] || x == y || kind >= 8);
  switch (kind)
  {
  case 0: flag_one<int>("int", si, li, x, y); break;
  case 1: flag_one<S>("std::string", si, li, x, y); break;
  case 2: flag_one<color>("color", si, li, x, y); break;
  case 3: flag_one<unsigned>("unsigned", si, li, x, y); break;
  case 4: option_one<int>("int", si, li, x - 1); break;
  case 5: option_one<S>("std::string", si, li, x - 1); break;
  case 6: option_one<color>("color", si, li, x - 1); break;
  case 7:
  {
    std::string const s = shorts[si], l = longs[li];
    std::string what;
    outcome const want = s == l ? outcome::duplicate : outcome::ok;
    expect(attempt([&] { fo::switch_<la> const p{osn(s), fo::long_name{S(l)}, fo::optional_help_text{}}; (void)p; }, what), want, "switch", "switch(short '" + s + "', long '" + l + "')", what);
    expect(attempt([&] { fo::unit_switch<la> const p{osn(s), fo::long_name{S(l)}}; (void)p; }, what), want, "unit_switch", "unit_switch(short '" + s + "', long '" + l + "')", what);
    break;
  }
  case 8:
  {
    // product of two parsers: ill-formed iff they share a (long or short) name
    std::string const s1 = shorts[si], l1 = longs[li], s2 = shorts[(x + 1) % 4], l2 = longs[y % 2];
    if (s1 == l1 || s2 == l2) return;
    std::set<std::string> n1{l1}, n2{l2};
    if (!s1.empty()) n1.insert(s1);
    if (!s2.empty()) n2.insert(s2);
    bool clash = false;
    for (auto const &n : n1) clash = clash || n2.count(n) != 0;
    std::string what;
    std::string const d = "(short '" + s1 + "', long '" + l1 + "') x (short '" + s2 + "', long '" + l2 + "')";
    expect(attempt([&] { auto const p = fo::apply(fo::switch_<la>{osn(s1), fo::long_name{S(l1)}, fo::optional_help_text{}}, fo::switch_<lb>{osn(s2), fo::long_name{S(l2)}, fo::optional_help_text{}}); (void)p; }, what),
           clash ? outcome::duplicate : outcome::ok, "product", "apply(switch, switch) " + d, what);
    expect(attempt([&] { auto const p = fo::apply(fo::switch_<la>{osn(s1), fo::long_name{S(l1)}, fo::optional_help_text{}}, fo::option<lb, int>{osn(s2), fo::long_name{S(l2)}, fo::no_default_value<int>(), fo::optional_help_text{}}); (void)p; }, what),
           clash ? outcome::duplicate : outcome::ok, "product", "apply(switch, option) " + d, what);
    expect(attempt([&] { auto const p = fo::apply(fo::make_optional(fo::option<la, S>{osn(s1), fo::long_name{S(l1)}, fo::no_default_value<S>(), fo::optional_help_text{}}), fo::make_many(fo::option<lb, int>{osn(s2), fo::long_name{S(l2)}, fo::no_default_value<int>(), fo::optional_help_text{}}), fo::argument<lc, int>{fo::long_name{S(l1)}, fo::optional_help_text{}}); (void)p; }, what),
           clash ? outcome::duplicate : outcome::ok, "product", "apply(optional(option), many(option), argument) " + d, what);
    break;
  }
  default:
  {
    // commands: ill-formed iff two sub-commands have the same name
    static char const *const cn[] = {"c1", "c2", "x"};
    std::string const n1 = cn[si % 3], n2 = cn[x], n3 = cn[y];
    std::string what;
    expect(attempt([&] { auto const p = fo::make_commands(fo::switch_<la>{osn("f"), fo::long_name{S("ff")}, fo::optional_help_text{}}, fo::make_sub_command<t1>(S(n1), fo::argument<lb, int>{fo::long_name{S("b")}, fo::optional_help_text{}}, fo::optional_help_text{}), fo::make_sub_command<t2>(S(n2), fo::unit<lc>{}, fo::optional_help_text{})); (void)p; }, what),
           n1 == n2 ? outcome::duplicate : outcome::ok, "commands", "commands('" + n1 + "','" + n2 + "')", what);
    expect(attempt([&] { auto const p = fo::make_commands(fo::unit<la>{}, fo::make_sub_command<t1>(S(n1), fo::unit<lb>{}, fo::optional_help_text{}), fo::make_sub_command<t2>(S(n2), fo::unit<lc>{}, fo::optional_help_text{}), fo::make_sub_command<t3>(S(n3), fo::unit<ld>{}, fo::optional_help_text{})); (void)p; }, what),
           (n1 == n2 || n1 == n3 || n2 == n3) ? outcome::duplicate : outcome::ok, "commands", "commands('" + n1 + "','" + n2 + "','" + n3 + "')", what);
    break;
  }
  }
}
Reg const r_def{"definitions", Kind::exhaustive, "the definition is ill-formed (equal long/short name, equal active/inactive value, shared name in a product, duplicate sub-command name) or composite",
                [] {
                  for (i64 kind = 0; kind < 10; ++kind)
                    for (i64 si = 0; si < 4; ++si)
                      for (i64 li = 0; li < 2; ++li)
                        for (i64 x = 0; x < 3; ++x)
                          for (i64 y = 0; y < 3; ++y)
                          {
                            cur({kind, si, li, x, y});
                            one({kind, si, li, x, y});
                          }
                },
                one,
                [](Ints const &c) { return "definition kind " + std::to_string(c.at(0)) + " (0-3 flag<int/string/color/unsigned>, 4-6 option, 7 switch/unit_switch, 8 product, 9 commands) short#" + std::to_string(c.at(1)) + " long#" + std::to_string(c.at(2)) + " x=" + std::to_string(c.at(3)) + " y=" + std::to_string(c.at(4)); }};
}
