// VERIF: quick_shards=2
// C05 - generic operations conserve values: fcppt::either and fcppt::variant combinators.
// either<F,S> needs distinct types: F = wrapped<1> (a thin wrapper around a tracked value), S = tracked.
// Shapes: failure / success (per either), each alternative (variant), success patterns (ranges).
// Not instantiated (rejected at compile time, so there is no failing input): either::sequence with
// an lvalue / const lvalue source.
#include "c05_common.hpp"

#include <fcppt/either/apply.hpp>
#include <fcppt/either/bind.hpp>
#include <fcppt/either/failure_opt.hpp>
#include <fcppt/either/first_success.hpp>
#include <fcppt/either/from_optional.hpp>
#include <fcppt/either/join.hpp>
#include <fcppt/either/map.hpp>
#include <fcppt/either/map_failure.hpp>
#include <fcppt/either/match.hpp>
#include <fcppt/either/object.hpp>
#include <fcppt/either/sequence.hpp>
#include <fcppt/either/success_opt.hpp>
#include <fcppt/optional/object.hpp>
#include <fcppt/variant/apply.hpp>
#include <fcppt/variant/match.hpp>
#include <fcppt/variant/object.hpp>
#include <fcppt/variant/to_optional.hpp>

#include <utility>
#include <vector>

using namespace c05;

namespace
{
using vec = std::vector<tracked>;
using failure_t = wrapped<1>;
using other_t = wrapped<2>;
using either_t = fcppt::either::object<failure_t, tracked>;
using either2_t = fcppt::either::object<failure_t, either_t>;
using opt = fcppt::optional::object<tracked>;

either_t make_either(bool success, int origin) { return success ? either_t{tracked(origin)} : either_t{failure_t(origin)}; }

// success -> either: keep (converted success) or a fresh failure
struct bind_conv
{
  bool keep;
  template <typename T>
  either_t operator()(T &&x) const
  {
    if (!keep)
    {
      (void)x.value();
      return either_t{failure_t(gen{}())};
    }
    return either_t{conv{}(std::forward<T>(x))};
  }
};
struct gen_failure
{
  failure_t operator()() const { return failure_t(gen{}()); }
};
// element of first_success's function container
struct fs_fn
{
  bool success;
  either_t operator()() const { return success ? either_t{gen{}()} : either_t{failure_t(gen{}())}; }
};

std::vector<std::vector<int>> const &patterns()
{
  // 1 = success, 0 = failure
  static std::vector<std::vector<int>> const p{{}, {1}, {0}, {1, 0, 1}, {1, 1, 1}, {0, 0}, {1, 1, 0, 0}, {1, 1, 1, 1, 1}};
  return p;
}
std::vector<either_t> make_eithers(std::vector<int> const &p)
{
  std::vector<either_t> v;
  v.reserve(p.size());
  for (std::size_t i = 0; i < p.size(); ++i) v.push_back(make_either(p[i] != 0, static_cast<int>(i)));
  return v;
}
int first_of(std::vector<int> const &p, int what)
{
  for (std::size_t i = 0; i < p.size(); ++i)
    if (p[i] == what) return static_cast<int>(i);
  return -1;
}

Family const &either_family()
{
  static Family const f = [] {
    Family r;
    // ---- map: success -> _function(s), otherwise "the failure in _either is returned"
    r.push_back(entry1("either::map", 2, any_cat{}, [](Ctx &cx, int shape, auto c) {
      using C = decltype(c);
      either_t e = make_either(shape == 1, 0);
      cx.arg<C>(e, shape == 1 ? "success" : "failure");
      cx.begin();
      either_t res = fcppt::either::map(pass<C>(e), conv{});
      cx.end();
      if (res.has_success() != (shape == 1)) fail(cx.key("alternative"), cx.where() + "wrong alternative in the result");
      cx.result(res, {shape == 1 ? fwd<C>(0) : 0});
    }));
    // ---- map_failure
    r.push_back(entry1("either::map_failure", 2, any_cat{}, [](Ctx &cx, int shape, auto c) {
      using C = decltype(c);
      either_t e = make_either(shape == 1, 0);
      cx.arg<C>(e, shape == 1 ? "success" : "failure");
      cx.begin();
      either_t res = fcppt::either::map_failure(pass<C>(e), conv_w<1>{});
      cx.end();
      if (res.has_success() != (shape == 1)) fail(cx.key("alternative"), cx.where() + "wrong alternative in the result");
      cx.result(res, {shape == 1 ? 0 : fwd<C>(0)});
    }));
    // ---- bind: failure / success -> failure / success -> success
    r.push_back(entry1("either::bind", 3, any_cat{}, [](Ctx &cx, int shape, auto c) {
      using C = decltype(c);
      either_t e = make_either(shape >= 1, 0);
      cx.arg<C>(e, shape >= 1 ? "success" : "failure");
      cx.begin();
      either_t res = fcppt::either::bind(pass<C>(e), bind_conv{shape == 2});
      cx.end();
      if (res.has_success() != (shape == 2)) fail(cx.key("alternative"), cx.where() + "wrong alternative in the result");
      cx.result(res, {shape == 0 ? 0 : shape == 1 ? gen_base : fwd<C>(0)});
    }));
    // ---- join: outer failure / inner failure / inner success. join is bind with the identity, a
    // copied outer failure has bind's root cause and is filed under bind's key
    r.push_back(entry1("either::join", 3, any_cat{}, [](Ctx &cx, int shape, auto c) {
      using C = decltype(c);
      either2_t e = shape == 0 ? either2_t{failure_t(0)} : either2_t{make_either(shape == 2, 0)};
      cx.arg<C>(e, shape == 0 ? "failure" : shape == 1 ? "inner-failure" : "success");
      if (shape == 0) cx.key_fn = "either::bind";
      cx.begin();
      either_t res = fcppt::either::join(pass<C>(e));
      cx.end();
      if (res.has_success() != (shape == 2)) fail(cx.key("alternative"), cx.where() + "wrong alternative in the result");
      cx.result(res, {0});
    }));
    // ---- apply: first failure in order, or _function(s_1, s_2)
    r.push_back(entry2("either::apply", 4, any_cat{}, any_cat{}, [](Ctx &cx, int shape, auto c1, auto c2) {
      using C1 = decltype(c1);
      using C2 = decltype(c2);
      either_t a = make_either((shape & 1) != 0, 0), b = make_either((shape & 2) != 0, 1);
      cx.arg<C1>(a, (shape & 1) ? "success" : "failure");
      cx.arg<C2>(b, (shape & 2) ? "success" : "failure");
      cx.begin();
      either_t res = fcppt::either::apply(conv2{}, pass<C1>(a), pass<C2>(b));
      cx.end();
      if (res.has_success() != (shape == 3)) fail(cx.key("alternative"), cx.where() + "wrong alternative in the result");
      cx.result_and_sink(res, shape == 3 ? std::vector<int>{fwd<C1>(0), fwd<C2>(1)} : std::vector<int>{(shape & 1) ? 1 : 0});
    }));
    // ---- match
    r.push_back(entry1("either::match", 2, any_cat{}, [](Ctx &cx, int shape, auto c) {
      using C = decltype(c);
      either_t e = make_either(shape == 1, 0);
      cx.arg<C>(e, shape == 1 ? "success" : "failure");
      cx.begin();
      tracked res = fcppt::either::match(pass<C>(e), unwrap<1>{}, conv{});
      cx.end();
      cx.result(res, {fwd<C>(0)});
    }));
    // ---- success_opt / failure_opt
    r.push_back(entry1("either::success_opt", 2, any_cat{}, [](Ctx &cx, int shape, auto c) {
      using C = decltype(c);
      either_t e = make_either(shape == 1, 0);
      cx.arg<C>(e, shape == 1 ? "success" : "failure");
      cx.begin();
      opt res = fcppt::either::success_opt(pass<C>(e));
      cx.end();
      cx.result(res, shape == 1 ? std::vector<int>{0} : std::vector<int>{});
    }));
    r.push_back(entry1("either::failure_opt", 2, any_cat{}, [](Ctx &cx, int shape, auto c) {
      using C = decltype(c);
      either_t e = make_either(shape == 1, 0);
      cx.arg<C>(e, shape == 1 ? "success" : "failure");
      cx.begin();
      fcppt::optional::object<failure_t> res = fcppt::either::failure_opt(pass<C>(e));
      cx.end();
      cx.result(res, shape == 0 ? std::vector<int>{0} : std::vector<int>{});
    }));
    // ---- from_optional
    r.push_back(entry1("either::from_optional", 2, any_cat{}, [](Ctx &cx, int shape, auto c) {
      using C = decltype(c);
      opt o = shape == 1 ? opt{tracked(0)} : opt{};
      cx.arg<C>(o, "optional");
      cx.begin();
      either_t res = fcppt::either::from_optional(pass<C>(o), gen_failure{});
      cx.end();
      if (res.has_success() != (shape == 1)) fail(cx.key("alternative"), cx.where() + "wrong alternative in the result");
      cx.result(res, {shape == 1 ? 0 : gen_base});
    }));
    // ---- sequence (rvalue source only): all successes, or the first failure
    r.push_back(entry0("either::sequence", pat, [](Ctx &cx, int shape) {
      std::vector<int> const &p = patterns()[static_cast<std::size_t>(shape)];
      std::vector<either_t> v = make_eithers(p);
      cx.arg<rv>(v, "source");
      cx.begin();
      fcppt::either::object<failure_t, vec> res = fcppt::either::sequence<vec>(std::move(v));
      cx.end();
      int const ff = first_of(p, 0);
      if (res.has_success() != (ff < 0)) fail(cx.key("alternative"), cx.where() + "wrong alternative in the result");
      cx.result(res, ff < 0 ? iota(static_cast<int>(p.size())) : std::vector<int>{ff});
    }));
    // ---- first_success: functions are called in order until the first success
    r.push_back(entry1("either::first_success", pat, any_cat{}, [](Ctx &cx, int shape, auto c) {
      using C = decltype(c);
      std::vector<int> const &p = patterns()[static_cast<std::size_t>(shape)];
      std::vector<fs_fn> fns;
      for (int s : p) fns.push_back(fs_fn{s != 0});
      cx.klass_override(std::string(cat_name(C::id)) + "-functions");
      cx.begin();
      fcppt::either::object<std::vector<failure_t>, tracked> res = fcppt::either::first_success(pass<C>(fns));
      cx.end();
      int const fs = first_of(p, 1);
      if (res.has_success() != (fs >= 0)) fail(cx.key("alternative"), cx.where() + "wrong alternative in the result");
      cx.result(res, fs >= 0 ? std::vector<int>{gen_base + fs} : iota(static_cast<int>(p.size()), gen_base));
    }));
    return r;
  }();
  return f;
}

// ------------------------------------------------------------------------------------- variant
using variant_t = fcppt::variant::object<tracked, other_t, int>;
variant_t make_variant(int alt, int origin)
{
  return alt == 0 ? variant_t{tracked(origin)} : alt == 1 ? variant_t{other_t(origin)} : variant_t{7};
}
struct int_fn
{
  tracked operator()(int) const { return gen{}(); }
};
struct visit2
{
  template <typename A, typename B>
  int operator()(A &&a, B &&b) const
  {
    absorb(std::forward<A>(a));
    absorb(std::forward<B>(b));
    return 0;
  }
};

Family const &variant_family()
{
  static Family const f = [] {
    Family r;
    // ---- match: one function per alternative, in order
    r.push_back(entry1("variant::match", 3, any_cat{}, [](Ctx &cx, int shape, auto c) {
      using C = decltype(c);
      variant_t v = make_variant(shape, 0);
      cx.arg<C>(v, shape == 0 ? "first-alternative" : shape == 1 ? "second-alternative" : "third-alternative");
      cx.begin();
      tracked res = fcppt::variant::match(pass<C>(v), conv{}, unwrap<2>{}, int_fn{});
      cx.end();
      cx.result(res, {shape == 2 ? gen_base : fwd<C>(0)});
    }));
    // ---- apply: binary visitation
    r.push_back(entry2("variant::apply", 9, any_cat{}, any_cat{}, [](Ctx &cx, int shape, auto c1, auto c2) {
      using C1 = decltype(c1);
      using C2 = decltype(c2);
      variant_t a = make_variant(shape % 3, 0), b = make_variant(shape / 3, 1);
      cx.arg<C1>(a, "first");
      cx.arg<C2>(b, "second");
      cx.begin();
      int const res = fcppt::variant::apply(visit2{}, pass<C1>(a), pass<C2>(b));
      cx.end();
      (void)res;
      std::vector<int> e;
      if (shape % 3 != 2) e.push_back(fwd<C1>(0));
      if (shape / 3 != 2) e.push_back(fwd<C2>(1));
      cx.sink_only(e);
    }));
    // ---- to_optional
    r.push_back(entry1("variant::to_optional", 3, any_cat{}, [](Ctx &cx, int shape, auto c) {
      using C = decltype(c);
      variant_t v = make_variant(shape, 0);
      cx.arg<C>(v);
      cx.begin();
      opt res = fcppt::variant::to_optional<tracked>(pass<C>(v));
      cx.end();
      cx.result(res, shape == 0 ? std::vector<int>{0} : std::vector<int>{});
    }));
    // ---- construction from a value
    r.push_back(entry1("variant::object(value)", 2, any_cat{}, [](Ctx &cx, int shape, auto c) {
      using C = decltype(c);
      tracked t(0);
      other_t w(1);
      cx.begin();
      if (shape == 0)
      {
        cx.arg<C>(t, "value");
        variant_t res{pass<C>(t)};
        cx.end();
        cx.result(res, {0});
      }
      else
      {
        cx.arg<C>(w, "value");
        variant_t res{pass<C>(w)};
        cx.end();
        cx.result(res, {1});
      }
    }));
    return r;
  }();
  return f;
}

C05_SECTION(r_either, "either", either_family);
C05_SECTION(r_variant, "variant", variant_family);
}
