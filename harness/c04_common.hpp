// Shared helpers of the C04 harnesses (optional / either / variant combinators).
//
// Value domains are small classes (not ints, no implicit conversions, no default constructor):
// a value carries its index 0..N-1; the move constructor / move assignment mark the source as
// moved-from and the destructor marks the object dead, so that a combinator that hands a
// moved-from or destroyed value to a continuation or into its result is recognised (idx() == -1).
//
// Models: an optional<D> is the integer 0 (nothing) or 1+d; an either<E,D> is the integer e (0..2,
// failure e) or 3+d (success d); functions between the finite domains are complete tables, encoded
// as the digits of an integer ("table code"). Continuations passed to fcppt look up the table and
// count their calls per argument value (Calls), so "exactly once, with the held value, never for an
// absent value" is an equality of counter arrays.
#ifndef VERIF_C04_COMMON_HPP
#define VERIF_C04_COMMON_HPP

#include "verif.hpp"

#include <string>
#include <vector>
#include <type_traits>
#include <utility>

namespace c04
{
using namespace verif;

constexpr int moved_from = -7;
constexpr int destroyed = -9;

// C04_HEAP_PAYLOAD (defined by the thorough-only c04_heap_*.cpp, which re-compile the same sections):
// every value additionally owns a std::string beyond the small-string size and a std::vector<int>
// derived from its index, so that lifetime errors are visible to ASan and a moved-from payload is
// recognised by content as well.
struct NoPayload
{
  explicit NoPayload(int) noexcept {}
  bool ok(int) const noexcept { return true; }
};
struct HeapPayload
{
  static std::string const &text(int i)
  {
    static std::string const t[4] = {"payload-zero-0000000000000000000000", "payload-one-11111111111111111111111111111", "payload-two-2222222222222222222222222222222222", "?"};
    return t[(i >= 0 && i < 3) ? i : 3];
  }
  explicit HeapPayload(int i) : s(text(i)), w(static_cast<std::size_t>(5 + (i & 3)), i) {}
  bool ok(int i) const { return s == text(i) && w.size() == static_cast<std::size_t>(5 + i) && w.front() == i && w.back() == i; }
  std::string s;
  std::vector<int> w;
};
#ifdef C04_HEAP_PAYLOAD
using Payload = HeapPayload;
#define C04_SEC(name) name "_heap"
#else
using Payload = NoPayload;
#define C04_SEC(name) name
#endif

template <char Tag, int N>
class Val
{
public:
  static constexpr int size = N;
  static constexpr char tag = Tag;
  explicit Val(int i) : v_(i), p_(i) {}
  Val(Val const &o) : v_(o.v_), p_(o.p_) {}
  Val(Val &&o) noexcept : v_(o.v_), p_(std::move(o.p_)) { o.v_ = moved_from; }
  Val &operator=(Val const &o)
  {
    v_ = o.v_;
    p_ = o.p_;
    return *this;
  }
  Val &operator=(Val &&o) noexcept
  {
    if (&o != this)
    {
      v_ = o.v_;
      p_ = std::move(o.p_);
      o.v_ = moved_from;
    }
    return *this;
  }
  ~Val() { v_ = destroyed; }
  // index of the value, -1 for a moved-from / destroyed / foreign object
  int idx() const noexcept { return v_ >= 0 && v_ < N && p_.ok(v_) ? v_ : -1; }
  int raw() const noexcept { return v_; }
  friend bool operator==(Val const &a, Val const &b) noexcept { return a.v_ == b.v_; }
  friend bool operator!=(Val const &a, Val const &b) noexcept { return a.v_ != b.v_; }
  friend bool operator<(Val const &a, Val const &b) noexcept { return a.v_ < b.v_; }

private:
  int v_;
  [[no_unique_address]] Payload p_;
};

using D = Val<'d', 3>; // success / payload domain
using E = Val<'e', 3>; // failure domain
using R = Val<'r', 3>; // a third, result domain (type-changing continuations)

// digit `pos` of `code` in base `base`: the value of table `code` at argument `pos`
inline int dig(i64 code, int pos, int base)
{
  for (int i = 0; i < pos; ++i) code /= base;
  return static_cast<int>(code % base);
}
inline bool constant_table(i64 code, int n, int base)
{
  for (int i = 1; i < n; ++i)
    if (dig(code, i, base) != dig(code, 0, base)) return false;
  return true;
}
inline i64 ipow(i64 b, int e)
{
  i64 r = 1;
  while (e-- > 0) r *= b;
  return r;
}
inline i64 mod(i64 v, i64 m) { return ((v % m) + m) % m; }

// call counters of a unary continuation over an N<=3 element domain (slot 3: bad argument)
struct Calls
{
  int n[4] = {0, 0, 0, 0};
  void hit(int i) { ++n[(i < 0 || i > 2) ? 3 : i]; }
  int total() const { return n[0] + n[1] + n[2] + n[3]; }
  // exactly one call, with argument `held`; no call at all if held < 0
  bool exactly(int held) const
  {
    for (int i = 0; i < 4; ++i)
      if (n[i] != (i == held ? 1 : 0)) return false;
    return true;
  }
  std::string str() const
  {
    return "calls{arg0:" + std::to_string(n[0]) + " arg1:" + std::to_string(n[1]) + " arg2:" + std::to_string(n[2]) + " bad-arg:" + std::to_string(n[3]) + "}";
  }
};
inline std::string held_str(int held) { return held < 0 ? std::string("no call") : "exactly one call with argument #" + std::to_string(held); }

// call counters of a binary continuation (slot [3][3] region: bad argument)
struct Calls2
{
  int n[4][4] = {};
  void hit(int i, int j) { ++n[(i < 0 || i > 2) ? 3 : i][(j < 0 || j > 2) ? 3 : j]; }
  bool exactly(int a, int b) const // a<0: no call
  {
    for (int i = 0; i < 4; ++i)
      for (int j = 0; j < 4; ++j)
        if (n[i][j] != ((a >= 0 && i == a && j == b) ? 1 : 0)) return false;
    return true;
  }
  std::string str() const
  {
    std::string r = "calls{";
    for (int i = 0; i < 4; ++i)
      for (int j = 0; j < 4; ++j)
        if (n[i][j]) r += "(" + std::to_string(i) + "," + std::to_string(j) + "):" + std::to_string(n[i][j]) + " ";
    return r + "}";
  }
};

// nullary continuation counter
struct Calls0
{
  int n = 0;
};

// pass an object as const lvalue or as rvalue
template <bool RV, typename T>
decltype(auto) pass(T &x)
{
  if constexpr (RV)
    return std::move(x);
  else
    return std::as_const(x);
}
template <typename F>
void both_categories(F const &f)
{
  f(std::false_type{});
  f(std::true_type{});
}
inline char const *cat_name(bool rv) { return rv ? "rvalue" : "const lvalue"; }

// names for messages
template <typename V>
std::string vname(int i)
{
  return i < 0 ? std::string("<moved-from/destroyed ") + V::tag + ">" : std::string(1, V::tag) + std::to_string(i);
}
inline std::string oname(int o) { return o < 0 ? "optional{<bad value>}" : o == 0 ? "nothing" : "optional{d" + std::to_string(o - 1) + "}"; }
inline std::string ename(int e) { return e < 0 ? "either{<bad value>}" : e < 3 ? "failure{e" + std::to_string(e) + "}" : "success{d" + std::to_string(e - 3) + "}"; }

// record a failure; the message is only built when the check fails
template <typename W>
inline bool chk(bool ok, char const *key, W const &what)
{
  if (!ok) fail(key, what());
  return ok;
}
}

#endif
