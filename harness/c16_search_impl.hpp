// Section code of c16_search.cpp and c16_heap_search.cpp.
// C16 (part 2) - contains / find_opt / index_of / binary_search / equal_range / remove(_if) /
// unique(_if) / reverse / split_string / join_strings / map_iteration(_second) / sequence_iteration
// against plain loops.
// Domain: all sequences over {0,1,2} up to length 6 (8 thorough), every searched value 0..3, all 8
// predicates, all 5 equivalence relations on {0,1,2} (std::unique demands an equivalence relation),
// all sorted sequences (as counts n0,n1,n2), all strings over {a,b,','} up to length 7 (8 thorough),
// all keep/remove tables by iteration position for the *_iteration functions.
#include "c16_common.hpp"

#include <fcppt/algorithm/binary_search.hpp>
#include <fcppt/algorithm/contains.hpp>
#include <fcppt/algorithm/equal_range.hpp>
#include <fcppt/algorithm/find_opt.hpp>
#include <fcppt/algorithm/index_of.hpp>
#include <fcppt/algorithm/join_strings.hpp>
#include <fcppt/algorithm/map_iteration.hpp>
#include <fcppt/algorithm/map_iteration_second.hpp>
#include <fcppt/algorithm/remove.hpp>
#include <fcppt/algorithm/remove_if.hpp>
#include <fcppt/algorithm/reverse.hpp>
#include <fcppt/algorithm/sequence_iteration.hpp>
#include <fcppt/algorithm/split_string.hpp>
#include <fcppt/algorithm/unique.hpp>
#include <fcppt/algorithm/unique_if.hpp>
#include <fcppt/algorithm/update_action.hpp>
#include <fcppt/optional/object.hpp>

#include <algorithm>
#include <deque>
#include <iterator>
#include <list>
#include <map>
#include <set>
#include <string>
#include <vector>

using namespace c16;

namespace
{
using IV = std::vector<int>;
auto lazy_key(char const *fn, char const *name)
{
  return [fn, name] { return std::string(fn) + "|" + name; };
}

// ------------------------------------------------------------------------------------------------
// contains / find_opt / index_of / remove with a value
template <typename C, bool Indexable>
void value_checks(Seq const &s, int val, char const *name)
{
  int first = -1;
  for (int i = 0; i < s.len && first < 0; ++i)
    if (s.at(i) == val) first = i;
  El const needle(val, 15);
  {
    C src = make<C>(s);
    chkk(fcppt::algorithm::contains(std::as_const(src), needle) == (first >= 0), lazy_key("algorithm::contains|result", name), [&] { return "contains(" + show(s) + ", " + std::to_string(val) + ") wrong"; });
    auto const r = fcppt::algorithm::find_opt(src, needle);
    auto const cr = fcppt::algorithm::find_opt(std::as_const(src), needle);
    int const off = r.has_value() ? static_cast<int>(std::distance(src.begin(), r.get_unsafe())) : -1;
    int const coff = cr.has_value() ? static_cast<int>(std::distance(std::as_const(src).begin(), cr.get_unsafe())) : -1;
    chkk(off == first && coff == first, lazy_key("algorithm::find_opt|result", name), [&] { return "find_opt(" + show(s) + ", " + std::to_string(val) + ") found offset " + std::to_string(off) + "/" + std::to_string(coff) + ", expected " + std::to_string(first) + " (-1 = nothing)"; });
    if constexpr (Indexable)
    {
      fcppt::optional::object<typename C::size_type> const ix = fcppt::algorithm::index_of(std::as_const(src), needle);
      int const got = ix.has_value() ? static_cast<int>(ix.get_unsafe()) : -1;
      chkk(got == first, lazy_key("algorithm::index_of|result", name), [&] { return "index_of(" + show(s) + ", " + std::to_string(val) + ") = " + std::to_string(got) + ", expected " + std::to_string(first); });
    }
  }
  {
    C src = make<C>(s);
    bool const r = fcppt::algorithm::remove(src, needle);
    IV want;
    for (int i = 0; i < s.len; ++i)
      if (s.at(i) != val) want.push_back(s.at(i) * 16 + i);
    chkk(ids(src) == want, lazy_key("algorithm::remove|final-state", name), [&] { return "remove(" + show(s) + ", " + std::to_string(val) + ") left ids " + show(ids(src)) + ", expected " + show(want); });
    chkk(r == (first >= 0), lazy_key(first >= 0 ? "algorithm::remove|return-value|something-removed" : "algorithm::remove|return-value|nothing-removed", name), [&] { return "remove(" + show(s) + ", " + std::to_string(val) + ") returned " + std::to_string(r); });
  }
  // the value to remove refers to an element of the container itself: remove(c, c.front()) removes
  // every element equal to the value the argument had at the call (the implementation copies it)
  if constexpr (Indexable)
  {
    if (s.len > 0 && val < s.len)
    {
      C src = make<C>(s);
      int const aliased = s.at(static_cast<int>(val));
      bool const r = fcppt::algorithm::remove(src, src[static_cast<std::size_t>(val)]);
      IV want;
      for (int i = 0; i < s.len; ++i)
        if (s.at(i) != aliased) want.push_back(s.at(i) * 16 + i);
      chkk(ids(src) == want && r, lazy_key("algorithm::remove|argument-aliases-an-element", name), [&] { return "remove(c, c[" + std::to_string(val) + "]) on " + show(s) + " left ids " + show(ids(src)) + ", expected " + show(want); });
    }
  }
}
void value_case(i64 len_, i64 code_, i64 val_)
{
  Seq const s = seq_of(len_, code_);
  int const val = static_cast<int>(mod(val_, 4));
  int n = 0;
  for (int i = 0; i < s.len; ++i) n += s.at(i) == val;
  count(s.len == 0 || n >= 2 || (s.len >= 1 && n == s.len) || (s.len >= 2 && n == 0));
  value_checks<std::vector<El>, true>(s, val, "vector");
  value_checks<std::deque<El>, true>(s, val, "deque");
  value_checks<std::list<El>, false>(s, val, "list");
}
Reg const r_value{
    C16_SEC("alg_contains_find_index_remove"), Kind::exhaustive, "contains / find_opt / index_of / remove: empty sequence, the value occurs at least twice, every element equals it, or it is absent from a sequence of length >= 2",
    [] {
      for_seqs(max_len(), [](Seq const &s) {
        for (i64 v = 0; v < 4; ++v)
        {
          cur3(s.len, s.code, v);
          value_case(s.len, s.code, v);
        }
      });
    },
    [](Ints const &c) { value_case(c.at(0), c.at(1), c.at(2)); },
    [](Ints const &c) { return "search / remove value " + std::to_string(mod(c.at(2), 4)) + " in " + show(seq_of(c.at(0), c.at(1))); }};

// ------------------------------------------------------------------------------------------------
// remove_if with all predicates, unique_if with all equivalence relations, unique, reverse
int class_of(int rel, int v)
{
  // 0: {0}{1}{2}  1: {0,1}{2}  2: {0,2}{1}  3: {0}{1,2}  4: {0,1,2}
  static int const cls[5][3] = {{0, 1, 2}, {0, 0, 2}, {0, 1, 0}, {0, 1, 1}, {0, 0, 0}};
  return (v < 0 || v > 2) ? -1 : cls[rel][v];
}
template <typename C>
void mutate_checks(Seq const &s, i64 p, int rel, char const *name)
{
  auto pred = [p](int v) { return v >= 0 && v < 3 && dig(p, v, 2) != 0; };
  {
    C src = make<C>(s);
    bool const r = fcppt::algorithm::remove_if(src, [&](El const &e) { return pred(e.v()); });
    IV want;
    bool any = false;
    for (int i = 0; i < s.len; ++i)
    {
      if (pred(s.at(i)))
        any = true;
      else
        want.push_back(s.at(i) * 16 + i);
    }
    chkk(ids(src) == want, lazy_key("algorithm::remove_if|final-state", name), [&] { return "remove_if(" + show(s) + ", pred#" + std::to_string(p) + ") left ids " + show(ids(src)) + ", expected " + show(want); });
    chkk(r == any, lazy_key(any ? "algorithm::remove_if|return-value|something-removed" : "algorithm::remove_if|return-value|nothing-removed", name), [&] { return "remove_if(" + show(s) + ", pred#" + std::to_string(p) + ") returned " + std::to_string(r) + ", expected " + std::to_string(any); });
  }
  if (p == 0)
  {
    C src = make<C>(s);
    fcppt::algorithm::unique_if(src, [rel](El const &a, El const &b) { return class_of(rel, a.v()) == class_of(rel, b.v()); });
    IV want;
    for (int i = 0; i < s.len; ++i)
      if (i == 0 || class_of(rel, s.at(i)) != class_of(rel, s.at(i - 1))) want.push_back(s.at(i) * 16 + i);
    chkk(ids(src) == want, lazy_key("algorithm::unique_if|final-state", name), [&] { return "unique_if(" + show(s) + ", relation#" + std::to_string(rel) + ") left ids " + show(ids(src)) + ", expected " + show(want); });
  }
  if (p == 0 && rel == 0)
  {
    {
      C src = make<C>(s);
      fcppt::algorithm::unique(src);
      IV want;
      for (int i = 0; i < s.len; ++i)
        if (i == 0 || s.at(i) != s.at(i - 1)) want.push_back(s.at(i) * 16 + i);
      chkk(ids(src) == want, lazy_key("algorithm::unique|final-state", name), [&] { return "unique(" + show(s) + ") left ids " + show(ids(src)) + ", expected " + show(want); });
    }
    {
      C src = make<C>(s);
      IV want;
      for (int i = s.len - 1; i >= 0; --i) want.push_back(s.at(i) * 16 + i);
      C const a = fcppt::algorithm::reverse(std::as_const(src));
      IV const after = ids(src);
      C const b = fcppt::algorithm::reverse(std::move(src));
      chkk(ids(a) == want && ids(b) == want, lazy_key("algorithm::reverse|result", name), [&] { return "reverse(" + show(s) + ") gave ids " + show(ids(a)) + " (lvalue) / " + show(ids(b)) + " (rvalue)"; });
      chkk(after == ids(make<std::vector<El>>(s)), lazy_key("algorithm::reverse|lvalue-source-unchanged", name), [&] { return "reverse of an lvalue changed its argument to " + show(after); });
      // a NON-CONST lvalue: the same result, and the argument is still what it was
      C mut = make<C>(s);
      C const m1 = fcppt::algorithm::reverse(mut);
      IV const after_mut = ids(mut);
      C const m2 = fcppt::algorithm::reverse(mut);
      chkk(ids(m1) == want && ids(m2) == want && after_mut == ids(make<std::vector<El>>(s)), lazy_key("algorithm::reverse|non-const-lvalue", name),
           [&] { return "reverse(non-const lvalue " + show(s) + ") gave ids " + show(ids(m1)) + ", left the argument as " + show(after_mut) + ", a second call gave " + show(ids(m2)); });
    }
  }
}
void mutate_case(i64 len_, i64 code_, i64 p_, i64 rel_)
{
  Seq const s = seq_of(len_, code_);
  i64 const p = mod(p_, 8);
  int const rel = static_cast<int>(mod(rel_, 5));
  bool all_removed = s.len > 0, adjacent_dup = false;
  for (int i = 0; i < s.len; ++i)
  {
    all_removed = all_removed && dig(p, s.at(i), 2) != 0;
    adjacent_dup = adjacent_dup || (i > 0 && class_of(rel, s.at(i)) == class_of(rel, s.at(i - 1)));
  }
  count(s.len == 0 || (p != 0 ? (all_removed || (s.len >= 2 && s.has_duplicate() && p != 7)) : adjacent_dup));
  mutate_checks<std::vector<El>>(s, p, rel, "vector");
  mutate_checks<std::deque<El>>(s, p, rel, "deque");
  mutate_checks<std::list<El>>(s, p, rel, "list");
}
Reg const r_mutate{
    C16_SEC("alg_remove_if_unique_reverse"), Kind::exhaustive,
    "remove_if / unique_if / unique / reverse: empty sequence; remove_if: all elements removed, or a duplicate with a non-constant predicate; unique: two adjacent equivalent elements",
    [] {
      for_seqs(max_len(), [](Seq const &s) {
        for (i64 p = 0; p < 8; ++p)
          for (i64 rel = 0; rel < (p == 0 ? 5 : 1); ++rel)
          {
            cur4(s.len, s.code, p, rel);
            mutate_case(s.len, s.code, p, rel);
          }
      });
    },
    [](Ints const &c) { mutate_case(c.at(0), c.at(1), c.at(2), c.at(3)); },
    [](Ints const &c) { return "remove_if pred#" + std::to_string(mod(c.at(2), 8)) + " / unique_if relation#" + std::to_string(mod(c.at(3), 5)) + " (0 equality,1 {01}{2},2 {02}{1},3 {0}{12},4 all) / unique / reverse on " + show(seq_of(c.at(0), c.at(1))); }};

// ------------------------------------------------------------------------------------------------
// binary_search / equal_range on sorted ranges: n0 zeros, n1 ones, n2 twos; searched value -1..3
template <typename C>
void sorted_checks(int const n[3], int val, char const *name)
{
  std::vector<El> v;
  for (int k = 0; k < 3; ++k)
    for (int i = 0; i < n[k]; ++i) v.push_back(El(k, static_cast<int>(v.size())));
  C src(v.begin(), v.end());
  int less = 0, equal = 0;
  for (int k = 0; k < 3; ++k)
  {
    if (k < val) less += n[k];
    if (k == val) equal += n[k];
  }
  El const needle(val, 15);
  auto const er = fcppt::algorithm::equal_range(src, needle);
  auto const cer = fcppt::algorithm::equal_range(std::as_const(src), needle);
  int const b = static_cast<int>(std::distance(src.begin(), er.begin())), e = static_cast<int>(std::distance(src.begin(), er.end()));
  int const cb = static_cast<int>(std::distance(std::as_const(src).begin(), cer.begin())), ce = static_cast<int>(std::distance(std::as_const(src).begin(), cer.end()));
  auto desc = [&] { return "zeros:" + std::to_string(n[0]) + " ones:" + std::to_string(n[1]) + " twos:" + std::to_string(n[2]) + " searched " + std::to_string(val); };
  chkk(b == less && e == less + equal && cb == less && ce == less + equal, lazy_key(equal == 0 ? "algorithm::equal_range|result|value-absent" : "algorithm::equal_range|result|value-present", name),
       [&] { return "equal_range on " + desc() + " = [" + std::to_string(b) + "," + std::to_string(e) + "), expected [" + std::to_string(less) + "," + std::to_string(less + equal) + ")"; });
  auto const bs = fcppt::algorithm::binary_search(src, needle);
  auto const cbs = fcppt::algorithm::binary_search(std::as_const(src), needle);
  int const got = bs.has_value() ? static_cast<int>(std::distance(src.begin(), bs.get_unsafe())) : -1;
  int const cgot = cbs.has_value() ? static_cast<int>(std::distance(std::as_const(src).begin(), cbs.get_unsafe())) : -1;
  int const want = equal == 1 ? less : -1;
  chkk(got == want && cgot == want, lazy_key(equal == 0 ? "algorithm::binary_search|result|value-absent" : equal == 1 ? "algorithm::binary_search|result|value-once" : "algorithm::binary_search|result|value-several-times", name),
       [&] { return "binary_search on " + desc() + " = offset " + std::to_string(got) + "/" + std::to_string(cgot) + ", expected " + std::to_string(want) + " (-1 = nothing; documented: an iterator iff exactly one equivalent element)"; });
}
void sorted_case(i64 n0_, i64 n1_, i64 n2_, i64 val_)
{
  int const n[3] = {static_cast<int>(mod(n0_, abs_max + 1)), static_cast<int>(mod(n1_, abs_max + 1)), static_cast<int>(mod(n2_, abs_max + 1))};
  if (n[0] + n[1] + n[2] > 15) return;
  int const val = static_cast<int>(mod(val_, 5)) - 1;
  int const eq = (val >= 0 && val < 3) ? n[val] : 0;
  count(eq >= 2 || n[0] + n[1] + n[2] == 0 || (eq == 0 && n[0] + n[1] + n[2] >= 2) || (eq == 1 && n[0] + n[1] + n[2] >= 3));
  sorted_checks<std::vector<El>>(n, val, "vector");
  sorted_checks<std::deque<El>>(n, val, "deque");
  sorted_checks<std::list<El>>(n, val, "list");
  sorted_checks<std::multiset<El>>(n, val, "multiset");
}
Reg const r_sorted{
    C16_SEC("alg_binary_search_equal_range"), Kind::exhaustive, "binary_search / equal_range on sorted ranges: the value occurs >= 2 times, the range is empty, the value is absent from >= 2 elements, or occurs once among >= 3",
    [] {
      int const m = max_len();
      for (i64 a = 0; a <= m; ++a)
        for (i64 b = 0; a + b <= m; ++b)
          for (i64 c = 0; a + b + c <= m; ++c)
            for (i64 v = 0; v < 5; ++v)
            {
              cur4(a, b, c, v);
              sorted_case(a, b, c, v);
            }
    },
    [](Ints const &c) { sorted_case(c.at(0), c.at(1), c.at(2), c.at(3)); },
    [](Ints const &c) { return "binary_search / equal_range for " + std::to_string(mod(c.at(3), 5) - 1) + " in the sorted range with " + std::to_string(c.at(0)) + " zeros, " + std::to_string(c.at(1)) + " ones, " + std::to_string(c.at(2)) + " twos"; }};

// ------------------------------------------------------------------------------------------------
// split_string / join_strings over all strings over {a,b,','}
template <typename Ch>
std::basic_string<Ch> text_of(int len, i64 code)
{
  static Ch const alphabet[3] = {Ch('a'), Ch('b'), Ch(',')};
  std::basic_string<Ch> r;
  for (int i = 0; i < len; ++i) r.push_back(alphabet[dig(code, i, 3)]);
  return r;
}
template <typename Str, typename Elem>
std::vector<Str> ref_split(Str const &s, Elem delim)
{
  std::vector<Str> out;
  Str cur;
  for (auto const &c : s)
  {
    if (c == delim)
    {
      out.push_back(cur);
      cur = Str();
    }
    else
      cur.push_back(c);
  }
  out.push_back(cur);
  return out;
}
template <typename Str, typename Range>
Str ref_join(Range const &parts, Str const &delim)
{
  Str r;
  bool first = true;
  for (auto const &p : parts)
  {
    if (!first) r += delim;
    r += p;
    first = false;
  }
  return r;
}
void string_case(i64 len_, i64 code_)
{
  int const len = static_cast<int>(mod(len_, abs_max + 1));
  i64 const code = mod(code_, ipow(3, len));
  std::string const s = text_of<char>(len, code);
  bool const nt = len == 0 || (len >= 2 && (s.front() == ',' || s.back() == ',' || s.find(",,") != std::string::npos));
  count(nt);
  char const *const cl = len == 0 ? "empty" : (s.front() == ',' && s.back() == ',') ? "delimiter-at-both-ends" : s.back() == ',' ? "delimiter-at-end" : s.front() == ',' ? "delimiter-at-start" : "other";
  std::vector<std::string> const want = ref_split(s, ',');
  std::vector<std::string> const got = fcppt::algorithm::split_string(s, ',');
  auto showv = [](std::vector<std::string> const &v) {
    std::string r = "{";
    for (auto const &x : v) r += "\"" + x + "\" ";
    return r + "}";
  };
  chkk(got == want, lazy_key("algorithm::split_string|result", cl), [&] { return "split_string(\"" + s + "\", ',') = " + showv(got) + ", expected " + showv(want); });
  // inverse law and join against the loop reference
  std::string const j1 = fcppt::algorithm::join_strings(got, std::string(","));
  chkk(j1 == s, lazy_key("algorithm::join_strings|inverts-split_string", cl), [&] { return "join_strings(split_string(\"" + s + "\")) = \"" + j1 + "\""; });
  std::string const j2 = fcppt::algorithm::join_strings(want, std::string(","));
  chkk(j2 == s, lazy_key("algorithm::join_strings|result", cl), [&] { return "join_strings(" + showv(want) + ", \",\") = \"" + j2 + "\", expected \"" + s + "\""; });
  std::vector<std::string> const back = fcppt::algorithm::split_string(j2, ',');
  chkk(back == want, lazy_key("algorithm::split_string|inverts-join_strings", cl), [&] { return "split_string(join_strings(v)) = " + showv(back) + ", expected " + showv(want); });
  // other delimiters and range types
  std::list<std::string> const wl(want.begin(), want.end());
  std::deque<std::string> const wd(want.begin(), want.end());
  std::string const j3 = fcppt::algorithm::join_strings(wl, std::string("::")), j4 = fcppt::algorithm::join_strings(wd, std::string());
  chkk(j3 == ref_join(want, std::string("::")) && j4 == ref_join(want, std::string()), lazy_key("algorithm::join_strings|result-other-delimiters", cl), [&] { return "join_strings with \"::\" / \"\" gave \"" + j3 + "\" / \"" + j4 + "\""; });
  // splitting at 'a' (a different delimiter over the same strings)
  std::vector<std::string> const ga = fcppt::algorithm::split_string(s, 'a');
  chkk(ga == ref_split(s, 'a'), lazy_key("algorithm::split_string|result-other-delimiter", cl), [&] { return "split_string(\"" + s + "\", 'a') = " + showv(ga); });
  // wide strings and vector<int> as the "string" type
  std::wstring const w = text_of<wchar_t>(len, code);
  chkk(fcppt::algorithm::split_string(w, L',') == ref_split(w, L',') && fcppt::algorithm::join_strings(ref_split(w, L','), std::wstring(L",")) == w, lazy_key("algorithm::split_string|result-wstring", cl), [&] { return "wide split/join of \"" + s + "\" wrong"; });
  std::vector<int> vi;
  for (int i = 0; i < len; ++i) vi.push_back(dig(code, i, 3));
  chkk(fcppt::algorithm::split_string(vi, 2) == ref_split(vi, 2), lazy_key("algorithm::split_string|result-vector-of-int", cl), [&] { return "split_string(vector<int> of \"" + s + "\", 2) wrong"; });
}
void empty_range_join_case(i64 d_)
{
  static char const *const delims[] = {"", ",", "::"};
  std::string const delim = delims[mod(d_, 3)];
  count(true);
  std::vector<std::string> const none;
  std::list<std::string> const none_list;
  if (!fcppt::algorithm::join_strings(none, delim).empty() || !fcppt::algorithm::join_strings(none_list, delim).empty())
    fail("algorithm::join_strings|result|empty-range", "join_strings of an empty range with the delimiter \"" + delim + "\" is not empty");
  std::vector<std::wstring> const wnone;
  if (!fcppt::algorithm::join_strings(wnone, std::wstring(delim.begin(), delim.end())).empty()) fail("algorithm::join_strings|result|empty-range-wide", "wide join_strings of an empty range is not empty");
}
Reg const r_strings{
    C16_SEC("alg_split_join_strings"), Kind::exhaustive, "split_string / join_strings: empty string, or length >= 2 with the delimiter at an end or two adjacent delimiters",
    [] {
      int const m = opts().thorough() ? 8 : 7;
      for (i64 len = 0; len <= m; ++len)
        for (i64 code = 0, n = ipow(3, static_cast<int>(len)); code < n; ++code)
        {
          cur2(len, code);
          string_case(len, code);
        }
      // join_strings of an empty range (a case of its own: len code 99, delimiter 0..2)
      for (i64 d = 0; d < 3; ++d)
      {
        cur2(99, d);
        empty_range_join_case(d);
      }
    },
    [](Ints const &c) {
      if (c.at(0) == 99) empty_range_join_case(c.at(1));
      else string_case(c.at(0), c.at(1));
    },
    [](Ints const &c) {
      if (c.at(0) == 99) return std::string("join_strings of an empty range with delimiter #") + std::to_string(mod(c.at(1), 3)) + " of {\"\", \",\", \"::\"}";
      return "split/join of \"" + text_of<char>(static_cast<int>(mod(c.at(0), abs_max + 1)), mod(c.at(1), ipow(3, static_cast<int>(mod(c.at(0), abs_max + 1))))) + "\""; }};

// ------------------------------------------------------------------------------------------------
// sequence_iteration / map_iteration / map_iteration_second: remove the k-th visited element iff bit k
using fcppt::algorithm::update_action;
template <typename C>
void seq_iter_check(Seq const &s, i64 table, char const *name)
{
  C src = make<C>(s);
  IV log;
  fcppt::algorithm::sequence_iteration(src, [&](El const &e) {
    int const k = static_cast<int>(log.size());
    log.push_back(e.id());
    return ((table >> k) & 1) != 0 ? update_action::remove : update_action::keep;
  });
  IV want, all;
  for (int i = 0; i < s.len; ++i)
  {
    all.push_back(s.at(i) * 16 + i);
    if (((table >> i) & 1) == 0) want.push_back(s.at(i) * 16 + i);
  }
  chkk(ids(src) == want, lazy_key("algorithm::sequence_iteration|final-state", name), [&] { return "sequence_iteration over " + show(s) + " removing table#" + std::to_string(table) + " left ids " + show(ids(src)) + ", expected " + show(want); });
  chkk(log == all, lazy_key("algorithm::sequence_iteration|calls", name), [&] { return "sequence_iteration over " + show(s) + ": action saw ids " + show(log) + ", expected every element once in order"; });
}
void iteration_case(i64 len_, i64 code_, i64 table_)
{
  Seq const s = seq_of(len_, code_);
  i64 const table = mod(table_, ipow(2, s.len));
  bool const last_removed = s.len > 0 && ((table >> (s.len - 1)) & 1) != 0;
  count(s.len == 0 || last_removed || table == 0);
  seq_iter_check<std::vector<El>>(s, table, "vector");
  seq_iter_check<std::deque<El>>(s, table, "deque");
  seq_iter_check<std::list<El>>(s, table, "list");
  // maps: multimap keyed by value (iteration = stable sort by value), map keyed by position, set of ids
  IV order;
  for (int v = 0; v < 3; ++v)
    for (int i = 0; i < s.len; ++i)
      if (s.at(i) == v) order.push_back(v * 16 + i);
  {
    std::multimap<int, El> m;
    for (int i = 0; i < s.len; ++i) m.insert(std::make_pair(s.at(i), El(s.at(i), i)));
    IV log;
    fcppt::algorithm::map_iteration(m, [&](std::pair<int const, El> const &e) {
      int const k = static_cast<int>(log.size());
      log.push_back(e.first == e.second.v() ? e.second.id() : -1);
      return ((table >> k) & 1) != 0 ? update_action::remove : update_action::keep;
    });
    IV want, left;
    for (std::size_t k = 0; k < order.size(); ++k)
      if (((table >> k) & 1) == 0) want.push_back(order[k]);
    for (auto const &e : m) left.push_back(e.second.id());
    chk(left == want, "algorithm::map_iteration|final-state|multimap", [&] { return "map_iteration over the multimap of " + show(s) + " removing table#" + std::to_string(table) + " left ids " + show(left) + ", expected " + show(want); });
    chk(log == order, "algorithm::map_iteration|calls|multimap", [&] { return "map_iteration: action saw ids " + show(log) + ", expected " + show(order); });
  }
  {
    std::map<int, El> m;
    for (int i = 0; i < s.len; ++i) m.insert(std::make_pair(i, El(s.at(i), i)));
    std::map<int, El> m2(m);
    IV log, log2, want, left, left2, all;
    fcppt::algorithm::map_iteration(m, [&](std::pair<int const, El> const &e) {
      int const k = static_cast<int>(log.size());
      log.push_back(e.second.id());
      return ((table >> k) & 1) != 0 ? update_action::remove : update_action::keep;
    });
    fcppt::algorithm::map_iteration_second(m2, [&](El const &e) {
      int const k = static_cast<int>(log2.size());
      log2.push_back(e.id());
      return ((table >> k) & 1) != 0 ? update_action::remove : update_action::keep;
    });
    for (int i = 0; i < s.len; ++i)
    {
      all.push_back(s.at(i) * 16 + i);
      if (((table >> i) & 1) == 0) want.push_back(s.at(i) * 16 + i);
    }
    for (auto const &e : m) left.push_back(e.first == e.second.pos() ? e.second.id() : -1);
    for (auto const &e : m2) left2.push_back(e.first == e.second.pos() ? e.second.id() : -1);
    chk(left == want && log == all, "algorithm::map_iteration|final-state|map", [&] { return "map_iteration over the map of " + show(s) + " removing table#" + std::to_string(table) + " left ids " + show(left) + " (calls " + show(log) + "), expected " + show(want); });
    chk(left2 == want && log2 == all, "algorithm::map_iteration_second|final-state|map", [&] { return "map_iteration_second over the map of " + show(s) + " removing table#" + std::to_string(table) + " left ids " + show(left2) + " (calls " + show(log2) + "), expected " + show(want); });
  }
  {
    std::set<int> st;
    for (int i = 0; i < s.len; ++i) st.insert(s.at(i) * 16 + i);
    IV log;
    fcppt::algorithm::map_iteration(st, [&](int x) {
      int const k = static_cast<int>(log.size());
      log.push_back(x);
      return ((table >> k) & 1) != 0 ? update_action::remove : update_action::keep;
    });
    IV want;
    for (std::size_t k = 0; k < order.size(); ++k)
      if (((table >> k) & 1) == 0) want.push_back(order[k]);
    chk(ints(st) == want && log == order, "algorithm::map_iteration|final-state|set", [&] { return "map_iteration over the set of " + show(s) + " left " + show(ints(st)) + " (calls " + show(log) + "), expected " + show(want); });
  }
}
Reg const r_iteration{
    C16_SEC("alg_iteration_with_erase"), Kind::exhaustive, "sequence_iteration / map_iteration / map_iteration_second: empty container, the last visited element is erased, or nothing is erased",
    [] {
      int const m = opts().thorough() ? 7 : 6;
      for_seqs(m, [](Seq const &s) {
        for (i64 t = 0, n = ipow(2, s.len); t < n; ++t)
        {
          cur3(s.len, s.code, t);
          iteration_case(s.len, s.code, t);
        }
      });
    },
    [](Ints const &c) { iteration_case(c.at(0), c.at(1), c.at(2)); },
    [](Ints const &c) { return "iteration with erase over " + show(seq_of(c.at(0), c.at(1))) + ", removing the k-th visited element iff bit k of " + std::to_string(c.at(2)); }};
}
