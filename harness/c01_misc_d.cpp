// VERIF: rc quick_shards=2 stall=15
// C01 (floating-point math / small containers / small core helpers part of the registry) - safe API
// is total. Covers public run-time headers no other harness touches: vector angle functions, atan2,
// hypersphere_to_cartesian, point_rotate, the rotation matrices, exponential_pade (plus the
// intentionally-undocumented matrix::sqrt / matrix::logarithm on inputs where the iteration is known
// to converge), componentwise_equal, container::data / data_end / size, dynamic_array, the bitfield
// proxy, move_if, strong_typedef helpers, type_iso, bit::mask_c, the literal macros, version numbers
// and the compile-time record helpers.
// Oracle: (a) the process survives ASan+UBSan+_GLIBCXX_ASSERTIONS, (b) no exception escapes, (c) the
// watchdog (non-termination), (d) every result is read. Value comparisons with simple references are
// informational only (see the `fail` shadow below).
#include "verif.hpp"

#include <fcppt/absurd.hpp>
#include <fcppt/char_literal.hpp>
#include <fcppt/check_literal_conversion.hpp>
#include <fcppt/literal.hpp>
#include <fcppt/major_version.hpp>
#include <fcppt/make_literal_fundamental.hpp>
#include <fcppt/make_strong_typedef.hpp>
#include <fcppt/micro_version.hpp>
#include <fcppt/minor_version.hpp>
#include <fcppt/move_if.hpp>
#include <fcppt/optional_size_t.hpp>
#include <fcppt/string_literal.hpp>
#include <fcppt/strong_typedef.hpp>
#include <fcppt/strong_typedef_construct_cast.hpp>
#include <fcppt/strong_typedef_operators.hpp>
#include <fcppt/use.hpp>
#include <fcppt/version.hpp>
#include <fcppt/version_int.hpp>
#include <fcppt/version_integral_c.hpp>
#include <fcppt/array/object.hpp>
#include <fcppt/array/size.hpp>
#include <fcppt/bit/mask.hpp>
#include <fcppt/bit/mask_c.hpp>
#include <fcppt/bit/shift_count.hpp>
#include <fcppt/bit/shifted_mask_c.hpp>
#include <fcppt/cast/int_to_float_fun.hpp>
#include <fcppt/cast/size_fun.hpp>
#include <fcppt/cast/static_cast_fun.hpp>
#include <fcppt/cast/to_unsigned_fun.hpp>
#include <fcppt/container/data.hpp>
#include <fcppt/container/data_end.hpp>
#include <fcppt/container/dynamic_array.hpp>
#include <fcppt/container/size.hpp>
#include <fcppt/container/bitfield/array.hpp>
#include <fcppt/container/bitfield/object.hpp>
#include <fcppt/container/bitfield/proxy.hpp>
#include <fcppt/enum/size.hpp>
#include <fcppt/iterator/category_at_least.hpp>
#include <fcppt/math/to_array.hpp>
#include <fcppt/math/box/componentwise_equal.hpp>
#include <fcppt/math/box/object.hpp>
#include <fcppt/math/box/rect.hpp>
#include <fcppt/math/dim/componentwise_equal.hpp>
#include <fcppt/math/dim/static.hpp>
#include <fcppt/math/matrix/comparison.hpp>
#include <fcppt/math/matrix/componentwise_equal.hpp>
#include <fcppt/math/matrix/exponential_pade.hpp>
#include <fcppt/math/matrix/logarithm.hpp>
#include <fcppt/math/matrix/object.hpp>
#include <fcppt/math/matrix/rotation_2d.hpp>
#include <fcppt/math/matrix/rotation_axis.hpp>
#include <fcppt/math/matrix/rotation_x.hpp>
#include <fcppt/math/matrix/rotation_y.hpp>
#include <fcppt/math/matrix/rotation_z.hpp>
#include <fcppt/math/matrix/row.hpp>
#include <fcppt/math/matrix/sqrt.hpp>
#include <fcppt/math/matrix/static.hpp>
#include <fcppt/math/vector/angle_between.hpp>
#include <fcppt/math/vector/angle_between_cast.hpp>
#include <fcppt/math/vector/atan2.hpp>
#include <fcppt/math/vector/componentwise_equal.hpp>
#include <fcppt/math/vector/hypersphere_to_cartesian.hpp>
#include <fcppt/math/vector/point_rotate.hpp>
#include <fcppt/math/vector/signed_angle_between.hpp>
#include <fcppt/math/vector/signed_angle_between_cast.hpp>
#include <fcppt/math/vector/static.hpp>
#include <fcppt/monad/constructor.hpp>
#include <fcppt/mpl/list/object.hpp>
#include <fcppt/mpl/map/object.hpp>
#include <fcppt/mpl/set/object.hpp>
#include <fcppt/optional/monad.hpp>
#include <fcppt/optional/object.hpp>
#include <fcppt/record/all_disjoint.hpp>
#include <fcppt/record/are_disjoint.hpp>
#include <fcppt/record/are_equivalent.hpp>
#include <fcppt/record/element.hpp>
#include <fcppt/record/element_map.hpp>
#include <fcppt/record/enable_vararg_ctor.hpp>
#include <fcppt/record/label_set.hpp>
#include <fcppt/record/make_label.hpp>
#include <fcppt/record/object.hpp>
#include <fcppt/tuple/object.hpp>
#include <fcppt/tuple/size.hpp>
#include <fcppt/type_iso/decorate.hpp>
#include <fcppt/type_iso/enum.hpp>
#include <fcppt/type_iso/strong_typedef.hpp>
#include <fcppt/type_iso/transform.hpp>
#include <fcppt/type_iso/undecorate.hpp>

#include <array>
#include <cmath>
#include <cstdint>
#include <iterator>
#include <limits>
#include <list>
#include <memory>
#include <set>
#include <stdexcept>
#include <string>
#include <type_traits>
#include <typeinfo>
#include <utility>
#include <vector>

// Compile-time facts about the library (sizes, result types) are informational in a C01 harness, like
// the value oracles: on a tree where one of them is false the harness must still compile, so that the
// run can decide totality (a wrong size shows as an out-of-bounds access there, not as a build error).
#define C01_FACT(...) static_assert(true, "")
using namespace verif;

namespace
{
// C01 is about totality (no UB, no crash, no hang, no undocumented exception). The entries below
// also compare results with simple references, because that costs nothing and reads every result
// (so that an ill-formed one trips a sanitizer) - but a result that merely DIFFERS from the reference
// is not a violation of C01: a change to fcppt that keeps a function total while changing its value
// must not make this check raise an alarm. Hence only the totality keys reach verif::fail; a value
// disagreement is counted as a class in the evidence ("informational") and nothing more.
void fail(std::string const &key, std::string const &what)
{
  if (key.find("undocumented-exception") != std::string::npos) verif::fail(key, what);
  else verif::cls("value oracle disagreed (informational, outside C01)");
}
volatile long long g_sink = 0;
template <typename T>
void touch(T const &v)
{
  unsigned char const *p = reinterpret_cast<unsigned char const *>(&v);
  long long s = 0;
  for (std::size_t i = 0; i < sizeof(T); ++i) s += p[i];
  g_sink = g_sink + s;
}
template <typename F>
void total(char const *site, F &&f)
{
  try
  {
    f();
  }
  catch (std::bad_alloc const &)
  {
  }
  catch (std::exception const &e)
  {
    fail(std::string(site) + "|undocumented-exception", std::string(typeid(e).name()) + ": " + e.what());
  }
  catch (...)
  {
    fail(std::string(site) + "|undocumented-exception", "non-std exception escaped");
  }
}
bool same_bits(double a, double b) { return (std::isnan(a) && std::isnan(b)) || (a == b && std::signbit(a) == std::signbit(b)); }
// reads every component of a vector / matrix (long double: only the value, its padding bytes are indeterminate)
template <typename M>
void touch_all(M const &m)
{
  for (auto const &c : fcppt::math::to_array(m)) touch(static_cast<double>(c));
}
template <typename T>
void touch_opt(fcppt::optional::object<T> const &o)
{
  touch(o.has_value());
  if (o.has_value()) touch(o.get_unsafe());
}

namespace mx = fcppt::math::matrix;
namespace vc = fcppt::math::vector;
using dvec1 = vc::static_<double, 1>;
using dvec2 = vc::static_<double, 2>;
using dvec3 = vc::static_<double, 3>;
using fvec2 = vc::static_<float, 2>;
using fvec3 = vc::static_<float, 3>;
using ldvec2 = vc::static_<long double, 2>;
using ivec2 = vc::static_<int, 2>;
using ivec3 = vc::static_<int, 3>;
using uvec2 = vc::static_<unsigned, 2>;
using dmat2 = mx::static_<double, 2, 2>;
using dmat3 = mx::static_<double, 3, 3>;
using fmat2 = mx::static_<float, 2, 2>;

double const specials[] = {0.0, -0.0, std::numeric_limits<double>::quiet_NaN(), std::numeric_limits<double>::infinity(), -std::numeric_limits<double>::infinity(), std::numeric_limits<double>::denorm_min(), std::numeric_limits<double>::max(), std::numeric_limits<double>::min(), 1e-200, 1e200, -std::numeric_limits<double>::max(), -1e-200};
constexpr std::size_t n_specials = sizeof specials / sizeof specials[0];

// ---------------------------------------------------------------------------- angles, atan2, rotations
// Case: six quarter-integers q/4 (|q| <= 64), a relation selector (independent / to = from / to = -from /
// to = 2 * from / from = 0 / to = 0) and a special selector that replaces x[0] or x[3] by 0, -0, NaN,
// +-inf, a denormal, the smallest normal, 1e-200, 1e200 or +-max.
//
// Reading (angle_between, angle_between_cast): "The function returns nothing if any of the two
// vectors have length zero" and "The behaviour is undefined if _from or _to are very close to zero".
// A vector all of whose components are +-0 is the documented zero case and IS passed. A non-zero vector
// whose components are all below 1/4 in magnitude (it contains 1e-200, a denormal or the smallest
// normal and otherwise zeros) is taken to be "very close to zero" and is NOT passed. Every other
// vector (largest finite component >= 1/4, or a NaN / infinite component) is passed.
// signed_angle_between, atan2, hypersphere_to_cartesian, point_rotate and the rotation matrices
// document no precondition: every value is passed. rotation_axis documents "axis given as a unit
// vector": only the six axis-aligned unit vectors and (0.6, 0.8, 0), (0, -0.6, 0.8) are passed.
template <typename V>
bool all_zero(V const &v)
{
  for (auto const &c : fcppt::math::to_array(v)) if (!(c == 0)) return false;
  return true;
}
template <typename V>
bool near_zero(V const &v)
{
  if (all_zero(v)) return false;
  for (auto const &c : fcppt::math::to_array(v)) if (!(std::abs(c) < 0.25)) return false; // NaN counts as "not small"
  return true;
}
struct angle_case
{
  double x[6];
  int q[6];
  std::size_t special; // >= 2 * n_specials: plain
  unsigned relation;
  unsigned axis;
};
angle_case decode_angle_case(Ints const &c)
{
  Choices ch(c);
  angle_case r{};
  for (int i = 0; i < 6; ++i) { r.q[i] = static_cast<int>(ch.range(-64, 64)); r.x[i] = r.q[i] / 4.0; }
  r.special = ch.index(4 * n_specials); // half of the cases are plain
  r.relation = static_cast<unsigned>(ch.index(8));
  r.axis = static_cast<unsigned>(ch.index(8));
  switch (r.relation)
  {
  case 1: for (int i = 0; i < 3; ++i) { r.q[3 + i] = r.q[i]; r.x[3 + i] = r.x[i]; } break;
  case 2: for (int i = 0; i < 3; ++i) { r.q[3 + i] = -r.q[i]; r.x[3 + i] = -r.x[i]; } break;
  case 3: for (int i = 0; i < 3; ++i) { r.q[3 + i] = 2 * r.q[i]; r.x[3 + i] = 2 * r.x[i]; } break;
  case 4: for (int i = 0; i < 3; ++i) { r.q[i] = 0; r.x[i] = 0.0; } break;
  case 5: for (int i = 0; i < 3; ++i) { r.q[3 + i] = 0; r.x[3 + i] = 0.0; } break;
  default: break;
  }
  if (r.special < n_specials) r.x[0] = specials[r.special];
  else if (r.special < 2 * n_specials) r.x[3] = specials[r.special - n_specials];
  return r;
}
double const unit_axes[8][3] = {{1, 0, 0}, {-1, 0, 0}, {0, 1, 0}, {0, -1, 0}, {0, 0, 1}, {0, 0, -1}, {0.6, 0.8, 0}, {0, -0.6, 0.8}};
void angles_one(angle_case const &k)
{
  double const *x = k.x;
  bool const plain = k.special >= 2 * n_specials;
  dvec3 const from3(x[0], x[1], x[2]), to3(x[3], x[4], x[5]);
  dvec2 const from2(x[0], x[1]), to2(x[3], x[4]);
  fvec2 const ffrom2(static_cast<float>(x[0]), static_cast<float>(x[1])), fto2(static_cast<float>(x[3]), static_cast<float>(x[4]));
  count(!plain || k.relation >= 1 && k.relation <= 5 || all_zero(from2) || all_zero(to2));
  total("math::vector::angle_between", [&] {
    if (!near_zero(from3) && !near_zero(to3))
    {
      auto const r = vc::angle_between(from3, to3);
      touch_opt(r);
      if (plain && (all_zero(from3) || all_zero(to3)) && r.has_value()) fail("math::vector::angle_between|zero-vector", "documented: nothing if any of the two vectors has length zero");
      if (plain && !all_zero(from3) && !all_zero(to3) && !r.has_value()) fail("math::vector::angle_between|non-zero-vectors", "nothing for two vectors of length >= 1/4");
    }
    else skip();
    if (!near_zero(from2) && !near_zero(to2)) touch_opt(vc::angle_between(from2, to2));
    // float: the double specials 1e-200, the denormal and the smallest normal become 0 or stay tiny;
    // decide "near zero" on the float vector itself
    if (!near_zero(ffrom2) && !near_zero(fto2)) touch_opt(vc::angle_between(ffrom2, fto2));
    fvec3 const ff3(static_cast<float>(x[0]), static_cast<float>(x[1]), static_cast<float>(x[2])), ft3(static_cast<float>(x[3]), static_cast<float>(x[4]), static_cast<float>(x[5]));
    if (!near_zero(ff3) && !near_zero(ft3)) touch_opt(vc::angle_between(ff3, ft3));
  });
  total("math::vector::angle_between_cast", [&] {
    // integer vectors: a component is 0 or at least 1 in magnitude, never "very close to zero"
    ivec3 const a(k.q[0], k.q[1], k.q[2]), b(k.q[3], k.q[4], k.q[5]);
    auto const r = vc::angle_between_cast<double>(a, b);
    touch_opt(r);
    if ((all_zero(a) || all_zero(b)) && r.has_value()) fail("math::vector::angle_between_cast|zero-vector", "value for an integer zero vector");
    touch_opt(vc::angle_between_cast<float>(ivec2(k.q[0], k.q[1]), ivec2(k.q[3], k.q[4])));
    // large components: |q| <= 128 (relation "2 * from"), |q| * 15000000 <= 1.92e9 < INT_MAX; the dot product is formed in long double
    touch_opt(vc::angle_between_cast<long double>(ivec2(k.q[0] * 15000000, k.q[1] * 15000000), ivec2(k.q[3] * 15000000, k.q[4])));
    touch_opt(vc::angle_between_cast<double>(uvec2(static_cast<unsigned>(k.q[0] + 64) * 33000000U, static_cast<unsigned>(k.q[1] + 64)), uvec2(static_cast<unsigned>(k.q[3] + 64), 4294967295U)));
  });
  total("math::vector::signed_angle_between", [&] {
    auto const r = vc::signed_angle_between(from2, to2);
    touch_opt(r);
    if (plain && r.has_value() != !(x[0] == x[3] && x[1] == x[4])) fail("math::vector::signed_angle_between|presence", "atan2 of the difference: nothing exactly for equal vectors");
    touch_opt(vc::signed_angle_between(ffrom2, fto2));
    touch_opt(vc::signed_angle_between(ldvec2(x[0], x[1]), ldvec2(x[3], x[4])));
  });
  total("math::vector::signed_angle_between_cast", [&] {
    // the difference is formed after the conversion to the floating point type: the type limits are legal
    int const lim[4] = {std::numeric_limits<int>::min(), std::numeric_limits<int>::max(), 0, k.q[2]};
    int const e0 = lim[k.axis % 4], e1 = lim[(k.axis / 4 + 1) % 4];
    touch_opt(vc::signed_angle_between_cast<double>(ivec2(k.q[0], k.q[1]), ivec2(k.q[3], k.q[4])));
    touch_opt(vc::signed_angle_between_cast<double>(ivec2(e0, k.q[1]), ivec2(e1, k.q[4])));
    touch_opt(vc::signed_angle_between_cast<float>(ivec2(e1, e0), ivec2(e0, e1)));
    touch_opt(vc::signed_angle_between_cast<long double>(uvec2(0U, 4294967295U), uvec2(static_cast<unsigned>(k.q[0] + 64), 0U)));
  });
  total("math::vector::atan2", [&] {
    auto const r = vc::atan2(from2);
    touch_opt(r);
    // "Computes atan2(y, x). In case x or y is zero, nothing is returned" - weak reading: nothing at
    // least when both are zero, std::atan2(y, x) when neither is
    if (all_zero(from2) && r.has_value()) fail("math::vector::atan2|zero-vector", "value for (0,0)");
    if (x[0] != 0.0 && x[1] != 0.0 && !std::isnan(x[0]) && (!r.has_value() || !same_bits(r.get_unsafe(), std::atan2(x[1], x[0])))) fail("math::vector::atan2|value", "differs from std::atan2(y, x)");
    touch_opt(vc::atan2(to2));
    touch_opt(vc::atan2(ffrom2));
    touch_opt(vc::atan2(ldvec2(x[3], x[0])));
  });
  total("math::vector::hypersphere_to_cartesian", [&] {
    auto const r1 = vc::hypersphere_to_cartesian(dvec1(x[0]));
    C01_FACT(std::is_same_v<std::remove_cvref_t<decltype(r1)>, dvec2>);
    touch(r1.x()); touch(r1.y());
    if (!same_bits(r1.x(), std::cos(x[0])) || !same_bits(r1.y(), std::sin(x[0]))) fail("math::vector::hypersphere_to_cartesian|2d", "documented: (cos(angle), sin(angle))");
    auto const r2 = vc::hypersphere_to_cartesian(dvec2(x[0], x[1]));
    C01_FACT(std::is_same_v<std::remove_cvref_t<decltype(r2)>, dvec3>);
    touch(r2.x()); touch(r2.y()); touch(r2.z());
    auto const r3 = vc::hypersphere_to_cartesian(dvec3(x[3], x[1], x[0]));
    touch_all(r3);
    auto const rf = vc::hypersphere_to_cartesian(ffrom2);
    touch_all(rf);
  });
  total("math::vector::point_rotate / matrix::rotation_*", [&] {
    dvec2 const pr = vc::point_rotate(from2, to2, x[2]);
    touch(pr.x()); touch(pr.y());
    fvec2 const prf = vc::point_rotate(ffrom2, fto2, static_cast<float>(x[5]));
    touch(prf.x()); touch(prf.y());
    dvec2 const pr0 = vc::point_rotate(to2, to2, x[0]); // the centre itself, possibly a NaN / infinite angle
    touch(pr0.x()); touch(pr0.y());
    for (double const angle : {x[0], x[3], x[2]})
    {
      auto const r2d = mx::rotation_2d(angle);
      auto const rx = mx::rotation_x(angle), ry = mx::rotation_y(angle), rz = mx::rotation_z(angle);
      touch_all(r2d);
      touch_all(rx);
      touch_all(ry);
      touch_all(rz);
      double const *ax = unit_axes[k.axis % 8];
      auto const ra = mx::rotation_axis(angle, dvec3(ax[0], ax[1], ax[2]));
      touch_all(ra);
      auto const raf = mx::rotation_axis(static_cast<float>(angle), fvec3(static_cast<float>(ax[0]), static_cast<float>(ax[1]), static_cast<float>(ax[2])));
      touch_all(raf);
      auto const rxf = mx::rotation_x(static_cast<float>(angle));
      touch_all(rxf);
      auto const r2l = mx::rotation_2d(static_cast<long double>(angle));
      touch_all(r2l);
    }
    auto const id = mx::rotation_2d(0.0);
    if (id != dmat2(mx::row(1.0, -0.0), mx::row(0.0, 1.0))) fail("math::matrix::rotation_2d|zero-angle", "rotation by 0 is not the identity");
  });
}
std::string describe_angles(Ints const &c)
{
  angle_case const k = decode_angle_case(c);
  std::string r = "angle_between(_cast) / signed_angle_between(_cast) / atan2 / hypersphere_to_cartesian / point_rotate / rotation_2d,x,y,z,axis with from = (";
  for (int i = 0; i < 6; ++i) r += str(k.x[i]) + (i == 2 ? "), to = (" : i == 5 ? ")" : ", ");
  return r + ", unit axis #" + std::to_string(k.axis % 8) + "; angles are the first, fourth and third number";
}
Reg const r_angles{"float_angles_rotations", Kind::random, "a component is 0, -0, NaN, infinite, denormal, tiny or huge, or the vectors are equal, opposite, parallel, or one of them is the zero vector",
                   [] { run_random(*g_cur.sec, {4000, 3}, {60000, 3}); },
                   [](Ints const &c) { angles_one(decode_angle_case(c)); },
                   describe_angles};

// ---------------------------------------------------------------------------- matrix exponential, sqrt, logarithm
// Case: nine quarter-integers q/4 (|q| <= 16) and a kind selector.
//
// exponential_pade ("Calculates the matrix exponential e^A using a Pade approximation") documents no
// precondition. Passed: general matrices, the zero matrix, the identity, singular matrices, matrices
// scaled by 1e300 / 1e-300 / 2^20 / the smallest denormal, negated matrices and - on request of the
// registry, although "the mathematically exact result" of C01 does not exist for it - one NaN entry.
// NOT passed here: matrices with an infinite entry (no exact result) and matrices whose row sums
// overflow (see the section exponential_pade_norm_overflow at the end of this file).
//
// matrix::sqrt and matrix::logarithm say about themselves "intentionally not part of the public fcppt
// API" / "intentionally undocumented as of yet": they have no documented domain.
// Reading: they are called only where the Denman-Beavers iteration they implement is known to
// converge quadratically and the exact result exists: symmetric positive definite matrices
// A = B^T B + I (eigenvalues in [1, 150]) with epsilon 1e-6 (ten orders of magnitude above the rounding
// floor), and the matrices 0, I, diag(1,0) whose square root is the matrix itself. The logarithm is
// called with e1 = 1/2 (so that the Taylor series of log(I + Z) has ||Z|| <= 1/2), e2 = e3 = 1e-6.
// Matrices with negative eigenvalues, singular non-idempotent matrices, NaN entries and epsilon <= 0
// are outside that reading and are not passed.
struct mat_case
{
  double e[9];
  unsigned kind;
};
constexpr unsigned n_mat_kinds = 12;
mat_case decode_mat_case(Ints const &c)
{
  Choices ch(c);
  mat_case r{};
  for (double &v : r.e) v = static_cast<int>(ch.range(-16, 16)) / 4.0;
  r.kind = static_cast<unsigned>(ch.index(n_mat_kinds + 4)); // kinds >= n_mat_kinds: general
  return r;
}
void apply_kind(mat_case const &k, double (&e)[9])
{
  for (int i = 0; i < 9; ++i) e[i] = k.e[i];
  switch (k.kind)
  {
  case 0: for (double &v : e) v = 0.0; break;
  case 1: for (int i = 0; i < 9; ++i) e[i] = (i % 4 == 0) ? 1.0 : 0.0; break; // 3x3 identity; the 2x2 matrix uses e[0], e[1], e[3], e[4]
  case 2: for (int i = 0; i < 3; ++i) { e[3 + i] = 2.0 * e[i]; e[6 + i] = -e[i]; } break; // rank <= 1
  case 3: e[0] = std::numeric_limits<double>::quiet_NaN(); break;
  case 4: for (double &v : e) v *= 1e300; break; // row sums <= 1.2e301: finite
  case 5: for (double &v : e) v *= 1e-300; break;
  case 6: for (double &v : e) v *= std::numeric_limits<double>::denorm_min(); break;
  case 7: for (double &v : e) v = -std::abs(v); break;
  case 8: for (double &v : e) v *= 1048576.0; break;
  case 9: e[4] = std::numeric_limits<double>::quiet_NaN(); e[8] = std::numeric_limits<double>::quiet_NaN(); break;
  case 10: for (double &v : e) v *= 1e150; break;
  case 11: for (int i = 0; i < 9; ++i) if (i % 4 != 0) e[i] = 0.0; break; // diagonal
  default: break;
  }
}
void matrix_one(mat_case const &k)
{
  double e[9];
  apply_kind(k, e);
  count(k.kind < n_mat_kinds);
  dmat2 const m2(mx::row(e[0], e[1]), mx::row(e[3], e[4]));
  dmat3 const m3(mx::row(e[0], e[1], e[2]), mx::row(e[3], e[4], e[5]), mx::row(e[6], e[7], e[8]));
  total("math::matrix::exponential_pade", [&] {
    dmat2 const r2 = mx::exponential_pade(m2);
    touch_all(r2);
    dmat3 const r3 = mx::exponential_pade(m3);
    touch_all(r3);
    if (k.kind == 0 && (r2 != dmat2(mx::row(1.0, 0.0), mx::row(0.0, 1.0)))) fail("math::matrix::exponential_pade|zero-matrix", "e^0 is not the identity");
    // float: the scaled kinds would overflow the float row sums (excluded above): scale by 1e30 / 1e-30 instead
    float const fs = k.kind == 4 || k.kind == 10 ? 1e30F : k.kind == 5 ? 1e-30F : k.kind == 6 ? std::numeric_limits<float>::denorm_min() : k.kind == 8 ? 1048576.0F : 1.0F;
    float const b[4] = {static_cast<float>(k.e[0]) * fs, static_cast<float>(k.e[1]) * fs, static_cast<float>(k.e[3]) * fs, static_cast<float>(k.e[4]) * fs};
    fmat2 const mf(mx::row(k.kind == 3 ? std::numeric_limits<float>::quiet_NaN() : k.kind == 0 ? 0.0F : b[0], k.kind == 0 ? 0.0F : b[1]), mx::row(k.kind == 0 ? 0.0F : b[2], k.kind == 0 ? 0.0F : b[3]));
    fmat2 const rf = mx::exponential_pade(mf);
    touch_all(rf);
  });
  total("math::matrix::sqrt / logarithm", [&] {
    // A = B^T B + I from the unscaled quarter-integers: symmetric positive definite, entries <= 49
    double const *b = k.e;
    double a2[2][2], a3[3][3];
    double const b2[2][2] = {{b[0], b[1]}, {b[3], b[4]}};
    for (int i = 0; i < 2; ++i) for (int j = 0; j < 2; ++j) { a2[i][j] = i == j ? 1.0 : 0.0; for (int t = 0; t < 2; ++t) a2[i][j] += b2[t][i] * b2[t][j]; }
    for (int i = 0; i < 3; ++i) for (int j = 0; j < 3; ++j) { a3[i][j] = i == j ? 1.0 : 0.0; for (int t = 0; t < 3; ++t) a3[i][j] += b[3 * t + i] * b[3 * t + j]; }
    dmat2 const s2(mx::row(a2[0][0], a2[0][1]), mx::row(a2[1][0], a2[1][1]));
    dmat3 const s3(mx::row(a3[0][0], a3[0][1], a3[0][2]), mx::row(a3[1][0], a3[1][1], a3[1][2]), mx::row(a3[2][0], a3[2][1], a3[2][2]));
    double const eps = 1e-6;
    dmat2 const q2 = mx::sqrt(s2, eps);
    touch_all(q2);
    dmat3 const q3 = mx::sqrt(s3, eps);
    touch_all(q3);
    dmat2 const l2 = mx::logarithm(s2, 0.5, eps, eps);
    touch_all(l2);
    dmat3 const l3 = mx::logarithm(s3, 0.5, eps, eps);
    touch_all(l3);
    // idempotent matrices: the square root is the matrix itself
    dmat2 const zero(mx::row(0.0, 0.0), mx::row(0.0, 0.0)), ident(mx::row(1.0, 0.0), mx::row(0.0, 1.0)), proj(mx::row(1.0, 0.0), mx::row(0.0, 0.0));
    dmat2 const qz = mx::sqrt(zero, eps), qi = mx::sqrt(ident, eps), qp = mx::sqrt(proj, eps), li = mx::logarithm(ident, 0.5, eps, eps);
    touch_all(qz);
    touch_all(qp);
    touch_all(li);
    if (qi != ident || qz != zero) fail("math::matrix::sqrt|idempotent", "sqrt(I) != I or sqrt(0) != 0");
  });
}
std::string describe_matrix(Ints const &c)
{
  static char const *const names[] = {"zero matrix", "identity", "rank <= 1", "NaN in the first entry", "scaled by 1e300", "scaled by 1e-300", "scaled by the smallest denormal", "all entries non-positive", "scaled by 2^20", "NaN on the diagonal", "scaled by 1e150", "diagonal"};
  mat_case const k = decode_mat_case(c);
  std::string r = "exponential_pade (2x2: entries 0,1,3,4; 3x3; float 2x2) and sqrt / logarithm of B^T B + I for B = quarter-integers";
  for (double const v : k.e) r += " " + str(v);
  return r + ", kind: " + (k.kind < n_mat_kinds ? names[k.kind] : "general");
}
Reg const r_matrix{"matrix_exp_sqrt_log", Kind::random, "the matrix is zero, the identity, singular, diagonal, scaled to a huge / tiny / denormal magnitude, non-positive or has NaN entries",
                   [] { run_random(*g_cur.sec, {2500, 3}, {40000, 3}); },
                   [](Ints const &c) { matrix_one(decode_mat_case(c)); },
                   describe_matrix};

// ---------------------------------------------------------------------------- componentwise_equal
// Case: six quarter-integers for a, a delta pattern for b, an epsilon from {0, -1, NaN, inf, denormal,
// 1/4, 1, 1e300, -0} and a special selector that replaces a[0] and/or b[0].
// "Compares two vectors for equality using an epsilon" / box: "check if the components differ by more
// than the specified epsilon": no precondition on epsilon is documented: every value is passed.
double const epsilons[] = {0.0, -1.0, std::numeric_limits<double>::quiet_NaN(), std::numeric_limits<double>::infinity(), std::numeric_limits<double>::denorm_min(), 0.25, 1.0, 1e300, -0.0, 0.5, -std::numeric_limits<double>::infinity()};
constexpr std::size_t n_eps = sizeof epsilons / sizeof epsilons[0];
struct cmp_case
{
  double a[6], b[6];
  std::size_t eps, special;
  unsigned where;
};
cmp_case decode_cmp_case(Ints const &c)
{
  Choices ch(c);
  cmp_case r{};
  for (double &v : r.a) v = static_cast<int>(ch.range(-64, 64)) / 4.0;
  unsigned const pattern = static_cast<unsigned>(ch.index(4));
  for (int i = 0; i < 6; ++i)
  {
    int const d = static_cast<int>(ch.range(-2, 2));
    r.b[i] = pattern == 0 ? r.a[i] : pattern == 1 ? r.a[i] + d / 4.0 : pattern == 2 ? (i == 5 ? r.a[i] + d / 4.0 : r.a[i]) : -r.a[i];
  }
  r.eps = ch.index(n_eps);
  r.special = ch.index(3 * n_specials);
  r.where = static_cast<unsigned>(ch.index(3));
  if (r.special < n_specials)
  {
    if (r.where != 1) r.a[0] = specials[r.special];
    if (r.where != 0) r.b[0] = specials[r.special];
  }
  return r;
}
void cmp_one(cmp_case const &k)
{
  double const eps = epsilons[k.eps];
  bool const plain = k.special >= n_specials;
  count(!plain || k.eps != 5 && k.eps != 6 && k.eps != 9);
  double const *a = k.a, *b = k.b;
  // reference: every |a_i - b_i| < eps (the quarter-integers and their differences are exact)
  auto const ref = [&](std::initializer_list<int> idx) { for (int i : idx) if (!(std::abs(a[i] - b[i]) < eps)) return false; return true; };
  total("math::*::componentwise_equal", [&] {
    bool const rv = vc::componentwise_equal(dvec3(a[0], a[1], a[2]), dvec3(b[0], b[1], b[2]), eps);
    touch(rv);
    if (plain && rv != ref({0, 1, 2})) fail("math::vector::componentwise_equal|value", "differs from all |a_i - b_i| < epsilon");
    bool const rd = fcppt::math::dim::componentwise_equal(fcppt::math::dim::static_<double, 2>(a[0], a[1]), fcppt::math::dim::static_<double, 2>(b[0], b[1]), eps);
    touch(rd);
    if (plain && rd != ref({0, 1})) fail("math::dim::componentwise_equal|value", "differs from all |a_i - b_i| < epsilon");
    using m23 = mx::static_<double, 2, 3>;
    bool const rm = mx::componentwise_equal(m23(mx::row(a[0], a[1], a[2]), mx::row(a[3], a[4], a[5])), m23(mx::row(b[0], b[1], b[2]), mx::row(b[3], b[4], b[5])), eps);
    touch(rm);
    if (plain && rm != ref({0, 1, 2, 3, 4, 5})) fail("math::matrix::componentwise_equal|value", "differs from all |a_i - b_i| < epsilon");
    // box: positions (a0,a1) / (b0,b1), sizes (a2,a3) / (b2,b3); inf + -inf in pos + size is a NaN, no more
    using rect = fcppt::math::box::rect<double>;
    bool const rb = fcppt::math::box::componentwise_equal(rect(dvec2(a[0], a[1]), rect::dim(a[2], a[3])), rect(dvec2(b[0], b[1]), rect::dim(b[2], b[3])), eps);
    touch(rb);
    using box3 = fcppt::math::box::object<float, 3>;
    float const fe = static_cast<float>(eps);
    bool const rb3 = fcppt::math::box::componentwise_equal(
        box3(fvec3(static_cast<float>(a[0]), static_cast<float>(a[1]), static_cast<float>(a[2])), box3::dim(static_cast<float>(a[3]), static_cast<float>(a[4]), static_cast<float>(a[5]))),
        box3(fvec3(static_cast<float>(b[0]), static_cast<float>(b[1]), static_cast<float>(b[2])), box3::dim(static_cast<float>(b[3]), static_cast<float>(b[4]), static_cast<float>(b[5]))), fe);
    touch(rb3);
    bool const rf = vc::componentwise_equal(fvec2(static_cast<float>(a[0]), static_cast<float>(a[5])), fvec2(static_cast<float>(b[0]), static_cast<float>(b[5])), fe);
    touch(rf);
    bool const rl = vc::componentwise_equal(ldvec2(a[0], a[1]), ldvec2(b[0], b[1]), static_cast<long double>(eps));
    touch(rl);
  });
}
Reg const r_cmp{"componentwise_equal", Kind::random, "the epsilon is 0, -0, negative, NaN, infinite, denormal or 1e300, or a component is 0, -0, NaN, infinite, denormal, tiny or huge",
                [] { run_random(*g_cur.sec, {4000, 4}, {60000, 4}); },
                [](Ints const &c) { cmp_one(decode_cmp_case(c)); },
                [](Ints const &c) {
                  cmp_case const k = decode_cmp_case(c);
                  std::string r = "vector / dim / matrix / box componentwise_equal of a = (";
                  for (double const v : k.a) r += str(v) + " ";
                  r += "), b = (";
                  for (double const v : k.b) r += str(v) + " ";
                  return r + ") with epsilon " + str(epsilons[k.eps]);
                }};

// ---------------------------------------------------------------------------- container::data / data_end / size, dynamic_array
// Case: the container size n (0..8).
// data: "Returns a pointer to the beginning of _container, or the null pointer if _container is
// empty"; data_end: "one past the end ..., or the null pointer if empty"; size: "Uses size() if
// possible, otherwise calculates the distance from begin to end".
struct no_size_range
{
  using iterator = std::list<int>::const_iterator;
  std::list<int> impl;
  iterator begin() const { return impl.begin(); }
  iterator end() const { return impl.end(); }
};
template <typename C>
void data_checks(C &c, char const *what)
{
  auto *const p = fcppt::container::data(c);
  auto *const e = fcppt::container::data_end(c);
  C01_FACT(std::is_same_v<decltype(fcppt::container::data(c)), fcppt::container::to_pointer_type<C>>);
  if (c.empty())
  {
    if (p != nullptr || e != nullptr) fail(std::string("container::data|empty|") + what, "not the null pointer for an empty container");
  }
  else
  {
    if (p != std::data(c) || e != std::data(c) + c.size()) fail(std::string("container::data|non-empty|") + what, "not the begin / one past the end");
    long long s = 0;
    for (auto *q = p; q != e; ++q) s += static_cast<long long>(*q); // reads every element through the pointers
    touch(s);
  }
}
template <std::size_t N>
void std_array_checks()
{
  std::array<int, N> arr{};
  for (std::size_t i = 0; i < N; ++i) arr[i] = static_cast<int>(i);
  data_checks(arr, "std::array");
  std::array<int, N> const &carr = arr;
  data_checks(carr, "std::array const");
  if (fcppt::container::size(arr) != N) fail("container::size|std::array", "differs from N");
}
void containers_one(std::size_t n)
{
  n %= 9;
  count(n <= 1);
  total("container::data / data_end", [&] {
    std::vector<int> v;
    for (std::size_t i = 0; i < n; ++i) v.push_back(static_cast<int>(i * 3));
    v.shrink_to_fit();
    data_checks(v, "std::vector");
    std::vector<int> const &cv = v;
    data_checks(cv, "std::vector const");
    std::string s(n, 'x');
    data_checks(s, "std::string");
    std::string const &cs = s;
    data_checks(cs, "std::string const");
    std::vector<unsigned char> reserved;
    reserved.reserve(16); // capacity but no elements: still "empty"
    data_checks(reserved, "reserved std::vector");
    std_array_checks<0>();
    std_array_checks<1>();
    std_array_checks<5>();
  });
  total("container::size", [&] {
    std::vector<long> v(n, 7L);
    std::list<int> l(n, 1);
    std::set<int> st;
    for (std::size_t i = 0; i < n; ++i) st.insert(static_cast<int>(i));
    no_size_range nr{l};
    C01_FACT(std::is_unsigned_v<fcppt::container::size_result_type<no_size_range>> && std::is_unsigned_v<fcppt::container::size_result_type<std::vector<long>>>);
    if (fcppt::container::size(v) != n || fcppt::container::size(l) != n || fcppt::container::size(st) != n || fcppt::container::size(nr) != n || fcppt::container::size(std::string(n, 'a')) != n) fail("container::size|value", "differs from the number of elements");
  });
  total("container::dynamic_array", [&] {
    fcppt::container::dynamic_array<int> a(n);
    if (a.size() != n || a.data_end() - a.data() != static_cast<std::ptrdiff_t>(n)) fail("container::dynamic_array|size", "size() or data_end() - data() differs from the requested size");
    for (std::size_t i = 0; i < n; ++i) a.data()[i] = static_cast<int>(i + 1);
    long long s = 0;
    fcppt::container::dynamic_array<int> const &ca = a;
    for (int const *p = ca.data(); p != ca.data_end(); ++p) s += *p;
    if (s != static_cast<long long>(n * (n + 1) / 2)) fail("container::dynamic_array|contents", "elements written through data() are not read back");
    fcppt::container::dynamic_array<unsigned char, std::allocator<unsigned char>> b(n, std::allocator<unsigned char>{});
    for (unsigned char *p = b.data(); p != b.data_end(); ++p) *p = 0xAB;
    touch(b.size());
    struct trivial_pod { double d; char c; };
    fcppt::container::dynamic_array<trivial_pod> pods(n);
    for (std::size_t i = 0; i < pods.size(); ++i) pods.data()[i] = trivial_pod{1.5, 'c'};
    if (n > 0) touch(pods.data()[n - 1].d);
  });
}
Reg const r_containers{"container_data_size_dynamic_array", Kind::exhaustive, "the container is empty or has one element",
                       [] { for (i64 n = 0; n < 9; ++n) { cur1(n); containers_one(static_cast<std::size_t>(n)); } },
                       [](Ints const &c) { containers_one(static_cast<std::size_t>(static_cast<u64>(c.at(0)))); },
                       [](Ints const &c) { return "container::data / data_end / size on vector, string, std::array<0|1|5>, list, set, a begin/end-only range and dynamic_array<int | unsigned char | pod> of size " + std::to_string(static_cast<u64>(c.at(0)) % 9); }};

// ---------------------------------------------------------------------------- bitfield proxy
// Case: (enum kind, bit index, initial pattern). operator[] on a non-const bitfield returns a proxy
// ("Assign rhs to the bit referenced by this proxy", "Converts into a boolean value"); on a const one
// a proxy<array const>. Indices are the enumerators 0 .. fcppt_maximum (an enumeration with a fixed
// underlying type holds every value of that type; the bitfield is documented for 0 .. maximum).
enum class e5 : unsigned char { a, b, c, d, e, fcppt_maximum = e };
enum class e20 : unsigned short { first, fcppt_maximum = 19 };
enum class e70 : unsigned { first, fcppt_maximum = 69 };
enum class e1 : unsigned { only, fcppt_maximum = only };
C01_FACT(fcppt::array::size<fcppt::container::bitfield::object<e5, std::uint8_t>::array_type>::value == 1 && fcppt::array::size<fcppt::container::bitfield::object<e20, std::uint8_t>::array_type>::value == 3 && fcppt::array::size<fcppt::container::bitfield::object<e70, std::uint32_t>::array_type>::value == 3 && fcppt::array::size<fcppt::container::bitfield::object<e70, std::uint64_t>::array_type>::value == 2 && fcppt::array::size<fcppt::container::bitfield::object<e1, std::uint16_t>::array_type>::value == 1);
C01_FACT(std::is_same_v<fcppt::container::bitfield::object<e20, std::uint8_t>::array_type, fcppt::container::bitfield::array<fcppt::enum_::size<e20>, std::uint8_t>>);
C01_FACT(fcppt::array::size<fcppt::array::object<int, 0>>::value == 0 && fcppt::array::size<fcppt::array::object<char, 7>>::value == 7);
C01_FACT(fcppt::tuple::size<fcppt::tuple::object<>>::value == 0 && fcppt::tuple::size<fcppt::tuple::object<int, std::string, double>>::value == 3);
template <typename Enum, typename Internal>
void proxy_checks(unsigned index, unsigned pattern)
{
  using bf = fcppt::container::bitfield::object<Enum, Internal>;
  constexpr unsigned size = static_cast<unsigned>(bf::static_size::value);
  index %= size;
  bf field(bf::null());
  std::vector<bool> model(size, false);
  // initial pattern: every pattern-th bit (0: none, 1: all)
  for (unsigned i = 0; i < size; ++i)
    if (pattern != 0 && i % pattern == 0) { field[static_cast<Enum>(i)] = true; model[i] = true; }
  Enum const at = static_cast<Enum>(index), other = static_cast<Enum>((index + size / 2) % size);
  typename bf::reference p = field[at];
  C01_FACT(std::is_same_v<typename bf::reference, fcppt::container::bitfield::proxy<typename bf::array_type>> && std::is_same_v<typename bf::const_reference, fcppt::container::bitfield::proxy<typename bf::array_type const>>);
  bool const before = p;
  if (before != model[index]) fail("container::bitfield::proxy|read", "conversion to bool differs from the bit written before");
  p = !before;
  model[index] = !before;
  bf const &cfield = field;
  bool ok = true;
  for (unsigned i = 0; i < size; ++i)
  {
    typename bf::const_reference const cp = cfield[static_cast<Enum>(i)];
    bool const bit = cp;
    ok = ok && bit == model[i];
  }
  if (!ok) fail("container::bitfield::proxy|assign", "assignment through the proxy changed another bit or not the addressed one");
  // assignment from another proxy's value, chained assignment, proxy copies
  typename bf::reference o = field[other];
  o = static_cast<bool>(p);
  model[(index + size / 2) % size] = model[index];
  typename bf::reference copy(o);
  (copy = false) = true;
  model[(index + size / 2) % size] = true;
  typename bf::reference rebound(p);
  rebound = o; // copy assignment of the proxy object itself
  touch(static_cast<bool>(rebound));
  field[at] = false;
  model[index] = false;
  for (unsigned i = 0; i < size; ++i) ok = ok && static_cast<bool>(field[static_cast<Enum>(i)]) == model[i] && field.get(static_cast<Enum>(i)) == model[i];
  if (!ok) fail("container::bitfield::proxy|sequence", "bitfield differs from a vector<bool> after a sequence of proxy assignments");
}
void proxy_one(unsigned kind, unsigned index, unsigned pattern)
{
  kind %= 6;
  pattern %= 5;
  unsigned const sizes[6] = {5, 20, 70, 70, 1, 20}, bits[6] = {8, 8, 32, 64, 16, 64};
  unsigned const i = index % sizes[kind];
  count(i % bits[kind] == 0 || i % bits[kind] == bits[kind] - 1 || i == sizes[kind] - 1);
  total("container::bitfield::proxy", [&] {
    switch (kind)
    {
    case 0: proxy_checks<e5, std::uint8_t>(index, pattern); break;
    case 1: proxy_checks<e20, std::uint8_t>(index, pattern); break;
    case 2: proxy_checks<e70, std::uint32_t>(index, pattern); break;
    case 3: proxy_checks<e70, std::uint64_t>(index, pattern); break;
    case 4: proxy_checks<e1, std::uint16_t>(index, pattern); break;
    default: proxy_checks<e20, unsigned long long>(index, pattern); break;
    }
  });
}
Reg const r_proxy{"bitfield_proxy", Kind::exhaustive, "the bit is the first or last one of a storage element or the last enumerator",
                  [] {
                    unsigned const sizes[6] = {5, 20, 70, 70, 1, 20};
                    for (i64 kind = 0; kind < 6; ++kind) for (i64 index = 0; index < sizes[kind]; ++index) for (i64 pattern = 0; pattern < 5; ++pattern)
                    { cur3(kind, index, pattern); proxy_one(static_cast<unsigned>(kind), static_cast<unsigned>(index), static_cast<unsigned>(pattern)); }
                  },
                  [](Ints const &c) { proxy_one(static_cast<unsigned>(static_cast<u64>(c.at(0)) % 6), static_cast<unsigned>(static_cast<u64>(c.at(1)) % 1000), static_cast<unsigned>(static_cast<u64>(c.at(2)) % 5)); },
                  [](Ints const &c) {
                    static char const *const kinds[] = {"5 enumerators in uint8", "20 enumerators in uint8[3]", "70 enumerators in uint32[3]", "70 enumerators in uint64[2]", "1 enumerator in uint16", "20 enumerators in unsigned long long"};
                    return std::string("bitfield operator[] proxies (") + kinds[static_cast<u64>(c.at(0)) % 6] + "): read, assign, chained assign, copy, const proxy at bit " + std::to_string(static_cast<u64>(c.at(1)) % 1000) + " (modulo the size), every " + std::to_string(static_cast<u64>(c.at(2)) % 5) + "-th bit set before";
                  }};

// ---------------------------------------------------------------------------- small core helpers
FCPPT_MAKE_STRONG_TYPEDEF(int, st_int);
FCPPT_MAKE_STRONG_TYPEDEF(unsigned, st_uint);
FCPPT_MAKE_STRONG_TYPEDEF(long, st_long);
FCPPT_MAKE_STRONG_TYPEDEF(double, st_double);
FCPPT_MAKE_STRONG_TYPEDEF(st_int, st_nested);
enum class iso_enum : short { x, y, z, fcppt_maximum = z };
struct tracker
{
  int v{0};
  int moved_from{0};
  tracker() = default;
  explicit tracker(int a) : v(a) {}
  tracker(tracker const &o) : v(o.v) {}
  tracker(tracker &&o) noexcept : v(o.v) { o.moved_from = 1; }
  tracker &operator=(tracker const &) = default;
};
FCPPT_RECORD_MAKE_LABEL(lab_a);
FCPPT_RECORD_MAKE_LABEL(lab_b);
FCPPT_RECORD_MAKE_LABEL(lab_c);
using rec_ab = fcppt::record::object<fcppt::record::element<lab_a, int>, fcppt::record::element<lab_b, std::string>>;
using rec_ba = fcppt::record::object<fcppt::record::element<lab_b, std::string>, fcppt::record::element<lab_a, int>>;
using rec_ab2 = fcppt::record::object<fcppt::record::element<lab_a, long>, fcppt::record::element<lab_b, std::string>>;
using rec_c = fcppt::record::object<fcppt::record::element<lab_c, bool>>;
using rec_a = fcppt::record::object<fcppt::record::element<lab_a, int>>;
using rec_none = fcppt::record::object<>;
// compile-time only: evaluated by the compiler, listed here so that the headers are instantiated
C01_FACT(fcppt::record::are_disjoint<rec_ab, rec_c>::value && !fcppt::record::are_disjoint<rec_ab, rec_a>::value && fcppt::record::are_disjoint<rec_none, rec_none>::value && fcppt::record::are_disjoint<rec_none, rec_ab>::value);
C01_FACT(fcppt::record::all_disjoint<fcppt::mpl::list::object<rec_a, rec_c>>::value && !fcppt::record::all_disjoint<fcppt::mpl::list::object<rec_a, rec_c, rec_ab>>::value && fcppt::record::all_disjoint<fcppt::mpl::list::object<>>::value && fcppt::record::all_disjoint<fcppt::mpl::list::object<rec_ab>>::value);
C01_FACT(fcppt::record::are_equivalent<rec_ab, rec_ba>::value && !fcppt::record::are_equivalent<rec_ab, rec_ab2>::value && !fcppt::record::are_equivalent<rec_ab, rec_a>::value && fcppt::record::are_equivalent<rec_none, rec_none>::value);
C01_FACT(std::is_same_v<fcppt::record::label_set<rec_none>, fcppt::mpl::set::object<>> && std::is_same_v<fcppt::record::element_map<rec_none>, fcppt::mpl::map::object<>>);
C01_FACT(std::is_void_v<fcppt::record::enable_vararg_ctor<decltype(lab_a{} = 1), decltype(lab_b{} = std::string{})>> && std::is_void_v<fcppt::record::enable_vararg_ctor<>>);
template <typename... Args>
constexpr bool vararg_ok(fcppt::record::enable_vararg_ctor<Args...> *) { return true; }
template <typename... Args>
constexpr bool vararg_ok(...) { return false; }
C01_FACT(vararg_ok<decltype(lab_a{} = 1)>(nullptr) && !vararg_ok<int>(nullptr) && !vararg_ok<decltype(lab_a{} = 1), rec_a>(nullptr));
C01_FACT(std::is_same_v<fcppt::monad::constructor<fcppt::optional::object<int>, long>, fcppt::optional::object<long>>);
C01_FACT(fcppt::iterator::category_at_least<std::bidirectional_iterator_tag, std::forward_iterator_tag>::value && !fcppt::iterator::category_at_least<std::forward_iterator_tag, std::bidirectional_iterator_tag>::value && fcppt::iterator::category_at_least<std::random_access_iterator_tag, std::input_iterator_tag>::value && fcppt::iterator::category_at_least<std::input_iterator_tag, std::input_iterator_tag>::value && !fcppt::iterator::category_at_least<std::output_iterator_tag, std::input_iterator_tag>::value);
C01_FACT(std::is_same_v<fcppt::bit::shift_count, unsigned> && std::is_same_v<fcppt::version_int, unsigned long>);
C01_FACT(std::is_same_v<fcppt::optional_size_t, fcppt::optional::object<std::size_t>>);
C01_FACT(std::is_base_of_v<fcppt::type_iso::detail::terminal_tag, fcppt::type_iso::transform<int>> && !std::is_base_of_v<fcppt::type_iso::detail::terminal_tag, fcppt::type_iso::transform<st_int>> && !std::is_base_of_v<fcppt::type_iso::detail::terminal_tag, fcppt::type_iso::transform<iso_enum>>);
C01_FACT(fcppt::major_version::value * 1000000UL + fcppt::minor_version::value * 1000UL + fcppt::micro_version::value == FCPPT_VERSION && std::is_same_v<fcppt::major_version::value_type, fcppt::version_int> && std::is_same_v<fcppt::version_integral_c<7UL>, std::integral_constant<fcppt::version_int, 7UL>>);
FCPPT_CHECK_LITERAL_CONVERSION(int, long);
FCPPT_CHECK_LITERAL_CONVERSION(double, int);
FCPPT_CHECK_LITERAL_CONVERSION(float, double);
C01_FACT(fcppt::make_literal<int>::get(7L) == 7 && fcppt::make_literal<unsigned char>::get(200) == 200 && fcppt::make_literal<double>::get(3) == 3.0 && fcppt::literal<long long>(-5) == -5LL && std::is_same_v<fcppt::make_literal<short>::decorated_type, short>);
C01_FACT(fcppt::bit::mask_c<unsigned, 0x5U>().get() == 0x5U && fcppt::bit::mask_c<std::uint8_t, 0xFFU>().get() == 0xFFU && fcppt::bit::mask_c<std::uint64_t, 0ULL>().get() == 0ULL);
C01_FACT(fcppt::bit::shifted_mask_c<std::uint8_t, 7U>().get() == 0x80U && fcppt::bit::shifted_mask_c<std::uint8_t, 0U>().get() == 1U && fcppt::bit::shifted_mask_c<std::uint64_t, 63U>().get() == (1ULL << 63) && fcppt::bit::shifted_mask_c<int, 30U>().get() == (1 << 30) && fcppt::bit::shifted_mask_c<std::uint16_t, 15U>().get() == 0x8000U && fcppt::bit::shifted_mask_c<std::int8_t, 6U>().get() == 64);

void core_one(int a, int b, unsigned ua, unsigned ub)
{
  count(a == 0 || b == 0 || a == b || ua == 0U || ua == 0xFFFFFFFFU || ub == 0xFFFFFFFFU);
  total("strong_typedef_operators", [&] {
    // |a|, |b| <= 30000: no signed result overflows
    st_int const x(a), y(b);
    st_int z = x + y;
    z = z - x;
    z = z * y;
    z = -z;
    ++z; --z;
    st_int const post = z++;
    st_int const post2 = z--;
    z += x; z -= y; z *= st_int(2);
    z &= st_int(0xFFFF); z |= x; z ^= y;
    st_int const w = (x & y) | (x ^ y);
    st_int const n = ~x;
    bool const cmp = (x < y) != (x >= y) && (x > y) != (x <= y) && (x == y) != (x != y);
    if (!cmp) fail("strong_typedef_comparison|trichotomy", "comparison operators are inconsistent");
    if ((x + y).get() != a + b || (x - y).get() != a - b || (x * y).get() != a * b || n.get() != ~a || w.get() != ((a & b) | (a ^ b)) || post.get() != post2.get() - 1) fail("strong_typedef_arithmetic|value", "differs from the operation on the underlying ints");
    touch(z.get());
    // unsigned: the full range, wrap-around is defined
    st_uint p(ua), q(ub);
    st_uint r = p + q;
    r = r * q - p;
    r += q; r -= p; r *= q; r &= p; r |= q; r ^= p;
    ++r; r--; r = ~r; r = -r;
    touch(r.get());
    touch((p < q) ^ (p == q));
    st_double const d1(a / 4.0), d2(b / 4.0);
    touch((d1 + d2 * d1 - d2).get());
    touch(d1 < d2);
  });
  total("strong_typedef_construct_cast", [&] {
    // cast::to_unsigned is only called on non-negative values (DESIGN 3: unsafe on negatives)
    int const nonneg = a < 0 ? -a : a;
    st_uint const u = fcppt::strong_typedef_construct_cast<st_uint, fcppt::cast::to_unsigned_fun>(nonneg);
    st_long const l = fcppt::strong_typedef_construct_cast<st_long, fcppt::cast::size_fun>(a);
    st_double const d = fcppt::strong_typedef_construct_cast<st_double, fcppt::cast::int_to_float_fun>(b);
    st_int const i = fcppt::strong_typedef_construct_cast<st_int, fcppt::cast::static_cast_fun>(static_cast<unsigned short>(ua));
    if (u.get() != static_cast<unsigned>(nonneg) || l.get() != a || d.get() != b || i.get() != static_cast<int>(static_cast<unsigned short>(ua))) fail("strong_typedef_construct_cast|value", "differs from the converted argument");
  });
  total("move_if / FCPPT_USE / absurd", [&] {
    tracker t1(a), t2(a), t3(a), t4(a);
    tracker const r1(fcppt::move_if<true>(t1));
    tracker const r2(fcppt::move_if<false>(t2));
    tracker const r3(fcppt::move_if<false>(std::move(t3)));
    tracker const r4(fcppt::move_if<true>(std::move(t4)));
    C01_FACT(std::is_same_v<decltype(fcppt::move_if<false>(t2)), tracker &> && std::is_same_v<decltype(fcppt::move_if<true>(t2)), tracker &&>);
    // "Moves _arg if Cond is true or Arg is an rvalue"
    if (t1.moved_from != 1 || t2.moved_from != 0 || t3.moved_from != 1 || t4.moved_from != 1 || r1.v != a || r2.v != a || r3.v != a || r4.v != a) fail("move_if|value", "moved exactly if Cond is true or the argument is an rvalue");
    int const unused = b;
    FCPPT_USE(unused);
    FCPPT_USE(t1);
    // absurd<T> terminates the program when called: only instantiated
    int (*const f1)() = &fcppt::absurd<int>;
    std::string (*const f2)() = &fcppt::absurd<std::string>;
    touch(f1 != nullptr && f2 != nullptr);
  });
  total("type_iso / optional_size_t / bit::mask_c / literals", [&] {
    st_int const s = fcppt::type_iso::decorate<st_int>(a);
    if (fcppt::type_iso::undecorate(s) != a || fcppt::type_iso::undecorate(b) != b || fcppt::type_iso::decorate<int>(b) != b) fail("type_iso|strong_typedef", "decorate / undecorate do not round-trip");
    st_nested const nn = fcppt::type_iso::decorate<st_nested>(a);
    C01_FACT(std::is_same_v<fcppt::type_iso::undecorated_type<st_nested>, int>);
    if (nn.get().get() != a || fcppt::type_iso::undecorate(nn) != a) fail("type_iso|nested", "nested strong typedefs do not round-trip");
    short const ev = static_cast<short>(ua % 3U);
    iso_enum const en = fcppt::type_iso::decorate<iso_enum>(ev);
    if (fcppt::type_iso::undecorate(en) != ev || fcppt::type_iso::transform<iso_enum>::undecorate(iso_enum::z) != 2) fail("type_iso|enum", "enum transform does not round-trip");
    fcppt::optional_size_t const none{}, some{static_cast<std::size_t>(ua)};
    touch(none.has_value());
    if (!some.has_value() || some.get_unsafe() != ua) fail("optional_size_t|value", "value lost");
    fcppt::bit::mask<unsigned> const m = fcppt::bit::mask_c<unsigned, 0xF0F0U>();
    fcppt::bit::mask<std::uint32_t> const sm = fcppt::bit::shifted_mask_c<std::uint32_t, 31U>();
    touch(m.get() & ua); touch(sm.get() & ub);
    char const c = FCPPT_CHAR_LITERAL(char, 'x');
    wchar_t const wc = FCPPT_CHAR_LITERAL(wchar_t, 'x');
    char const *const cs = FCPPT_STRING_LITERAL(char, "ab\n");
    wchar_t const *const ws = FCPPT_STRING_LITERAL(wchar_t, "ab\n");
    char const *const empty = FCPPT_STRING_LITERAL(char, "");
    if (c != 'x' || wc != L'x' || std::string(cs) != "ab\n" || std::wstring(ws) != L"ab\n" || std::string(empty) != "") fail("char_literal / string_literal|value", "literal of the wrong value");
    touch(fcppt::make_literal<long>::get(a)); touch(fcppt::literal<double>(3)); touch(fcppt::literal<float>(0.5));
    touch(fcppt::major_version::value + fcppt::minor_version::value + fcppt::micro_version::value);
  });
}
void decode_core(Ints const &c, int &a, int &b, unsigned &ua, unsigned &ub)
{
  Choices ch(c);
  a = static_cast<int>(ch.range(-30000, 30000));
  b = static_cast<int>(ch.range(-30000, 30000));
  static unsigned const us[] = {0U, 1U, 0x7FFFFFFFU, 0x80000000U, 0xFFFFFFFFU, 0xFFFFU, 0x10000U};
  u64 const r1 = ch.raw(), r2 = ch.raw();
  ua = r1 % 3 == 0 ? us[(r1 / 3) % 7] : static_cast<unsigned>(r1);
  ub = r2 % 3 == 0 ? us[(r2 / 3) % 7] : static_cast<unsigned>(r2);
  if (ch.index(8) == 0) b = a;
}
Reg const r_core{"core_small_helpers", Kind::random, "an operand is 0, both are equal, or an unsigned operand is 0 or the maximum",
                 [] { run_random(*g_cur.sec, {3000, 2}, {40000, 2}); },
                 [](Ints const &c) { int a, b; unsigned ua, ub; decode_core(c, a, b, ua, ub); core_one(a, b, ua, ub); },
                 [](Ints const &c) { int a, b; unsigned ua, ub; decode_core(c, a, b, ua, ub); return "strong_typedef operators / construct_cast, move_if, type_iso, optional_size_t, mask_c, literal macros with ints " + std::to_string(a) + ", " + std::to_string(b) + " and unsigneds " + std::to_string(ua) + ", " + std::to_string(ub); }};

// ---------------------------------------------------------------------------- exponential_pade, overflowing row sums
// Finite matrices whose exact exponential is representable, but whose infinity norm (the largest
// absolute row sum) is not: e.g. A = -c * [[1,1],[1,1]] with c = 1e308 has e^A = I + (e^(-2c) - 1) / 2 *
// [[1,1],[1,1]] = [[.5,-.5],[-.5,.5]]. Before fix commit 'matrix::exponential_pade does not terminate if the
// norm overflows' exponential_pade computed
// j = max(0, 1 + log2(norm)) = +inf for them and then runs `for (T count = 0; count < j; ++count)`,
// which never ended (count stops changing at 2^53, resp. 2^24 for float). The calls are guarded by a
// known-finding key so that the rest of the file runs once the finding is listed; this section is
// registered last so that every other section of its shard has finished before.
char const *const key_norm_overflow = "math::matrix::exponential_pade|non-termination|row-sum-overflows-to-infinity";
void exp_overflow_one(unsigned which)
{
  which %= 6;
  count(true);
  if (known(key_norm_overflow)) return;
  double const big = 1e308, top = std::numeric_limits<double>::max();
  float const fbig = 3e38F;
  total("math::matrix::exponential_pade (overflowing norm)", [&] {
    switch (which)
    {
    case 0: { dmat2 const r = mx::exponential_pade(dmat2(mx::row(-big, -big), mx::row(-big, -big))); touch_all(r); break; }
    case 1: { dmat2 const r = mx::exponential_pade(dmat2(mx::row(-1.5e308, -1.5e308), mx::row(0.0, -1.0))); touch_all(r); break; }
    case 2: { dmat2 const r = mx::exponential_pade(dmat2(mx::row(-top, -top), mx::row(-top, -top))); touch_all(r); break; }
    case 3: { fmat2 const r = mx::exponential_pade(fmat2(mx::row(-fbig, -fbig), mx::row(-fbig, -fbig))); touch_all(r); break; }
    case 4: { dmat3 const r = mx::exponential_pade(dmat3(mx::row(-big, -big, 0.0), mx::row(-big, -big, 0.0), mx::row(0.0, 0.0, 0.0))); touch_all(r); break; }
    default: { dmat3 const r = mx::exponential_pade(dmat3(mx::row(-7e307, -7e307, -7e307), mx::row(-7e307, -7e307, -7e307), mx::row(-7e307, -7e307, -7e307))); touch_all(r); break; }
    }
  });
}
Reg const r_exp_overflow{"exponential_pade_norm_overflow", Kind::exhaustive, "every case: finite entries, representable exact exponential, absolute row sum above the largest finite value",
                         [] { for (i64 w = 0; w < 6; ++w) { cur1(w); exp_overflow_one(static_cast<unsigned>(w)); } },
                         [](Ints const &c) { exp_overflow_one(static_cast<unsigned>(static_cast<u64>(c.at(0)) % 6)); },
                         [](Ints const &c) {
                           static char const *const what[] = {"-1e308 * ones(2,2)", "[[-1.5e308,-1.5e308],[0,-1]]", "-DBL_MAX * ones(2,2)", "float -3e38 * ones(2,2)", "-1e308 * ones(2,2) embedded in 3x3", "-7e307 * ones(3,3)"};
                           return std::string("exponential_pade(") + what[static_cast<u64>(c.at(0)) % 6] + "): row sums overflow, e^A is representable";
                         }};
}
