#include "verif.hpp"

#include <atomic>
#include <chrono>
#include <csignal>
#include <deque>
#include <exception>
#include <fstream>
#include <iostream>
#include <sys/syscall.h>
#include <sys/time.h>
#include <unistd.h>

extern "C" void __sanitizer_set_death_callback(void (*)(void)) __attribute__((weak));

namespace verif
{
namespace
{
struct Violation
{
  std::string key, what, section, text;
  Ints ints;
};

struct Global
{
  Opts opts;
  std::deque<Sec> sections;
  std::vector<Violation> violations;
  std::map<std::string, std::pair<u64, std::string>> known_hits; // key -> (count, first example)
  bool case_failed{false};
  bool dumped{false};
  std::string abnormal; // "", "sanitizer", "abort", "hang", "terminate", "exception"
  std::string abnormal_what;
};
Global &g()
{
  static Global *p = new Global; // never destroyed: handlers may run during exit
  return *p;
}

std::string describe_case(Sec &s, Ints const &v)
{
  if (s.describe)
  {
    try
    {
      return s.describe(v);
    }
    catch (...)
    {
    }
  }
  std::string r = s.name + "(";
  for (std::size_t i = 0; i < v.size() && i < 64; ++i)
  {
    if (i) r += ",";
    r += std::to_string(v[i]);
  }
  if (v.size() > 64) r += ",...";
  return r + ")";
}

std::string ints_json(Ints const &v)
{
  std::string r = "[";
  for (std::size_t i = 0; i < v.size(); ++i)
  {
    if (i) r += ",";
    r += std::to_string(v[i]);
  }
  return r + "]";
}

void write_stats()
{
  Global &G = g();
  if (G.opts.out.empty()) return;
  std::string tmp = G.opts.out + ".tmp";
  {
    std::ofstream o(tmp);
    o << "{\n \"abnormal\": \"" << json_escape(G.abnormal) << "\",\n";
    o << " \"abnormal_what\": \"" << json_escape(G.abnormal_what) << "\",\n";
    o << " \"seed\": " << G.opts.seed << ", \"tier\": \"" << G.opts.tier << "\", \"shard\": " << G.opts.shard
      << ",\n";
    if (g_cur.sec != nullptr)
    {
      o << " \"current\": {\"section\": \"" << json_escape(g_cur.sec->name) << "\", \"ints\": "
        << ints_json(cur_get()) << "},\n";
    }
    o << " \"sections\": [\n";
    bool first = true;
    for (Sec &s : G.sections)
    {
      if (!s.ran) continue;
      if (!first) o << ",\n";
      first = false;
      o << "  {\"name\": \"" << json_escape(s.name) << "\", \"kind\": \""
        << (s.kind == Kind::exhaustive ? "exhaustive" : s.kind == Kind::random ? "random" : "fuzz")
        << "\", \"rule\": \"" << json_escape(s.rule) << "\", \"evaluations\": " << s.evals
        << ", \"nontrivial\": " << s.nontrivial << ", \"skipped\": " << s.skipped
        << ", \"excluded_known\": " << s.excluded_known << ", \"wall_s\": " << s.wall_s << ", \"complete\": " << (s.complete ? "true" : "false")
        << ", \"classes\": {";
      bool f2 = true;
      for (auto const &c : s.classes)
      {
        if (!f2) o << ", ";
        f2 = false;
        o << "\"" << json_escape(c.first) << "\": " << c.second;
      }
      o << "}, \"samples\": [";
      f2 = true;
      for (auto const &x : s.samples)
      {
        if (!f2) o << ", ";
        f2 = false;
        o << "\"" << json_escape(x) << "\"";
      }
      o << "]}";
    }
    o << "\n ],\n \"violations\": [\n";
    first = true;
    for (Violation const &v : G.violations)
    {
      if (!first) o << ",\n";
      first = false;
      o << "  {\"key\": \"" << json_escape(v.key) << "\", \"what\": \"" << json_escape(v.what)
        << "\", \"section\": \"" << json_escape(v.section) << "\", \"text\": \"" << json_escape(v.text)
        << "\", \"ints\": " << ints_json(v.ints) << "}";
    }
    o << "\n ],\n \"known_hits\": {";
    first = true;
    for (auto const &k : G.known_hits)
    {
      if (!first) o << ", ";
      first = false;
      o << "\"" << json_escape(k.first) << "\": {\"count\": " << k.second.first << ", \"example\": \""
        << json_escape(k.second.second) << "\"}";
    }
    o << "}\n}\n";
  }
  std::rename(tmp.c_str(), G.opts.out.c_str());
  // distinctness across shard processes: the hashes of the non-trivial cases of every sampled
  // section are written next to the stats so that the driver can count their union
  for (Sec &s : G.sections)
  {
    if (!s.ran || s.kind == Kind::exhaustive || s.seen.empty()) continue;
    std::string const hp = G.opts.out + "." + s.name + ".h64";
    if (FILE *f = std::fopen(hp.c_str(), "wb"))
    {
      std::vector<u64> v(s.seen.begin(), s.seen.end());
      std::fwrite(v.data(), sizeof(u64), v.size(), f);
      std::fclose(f);
    }
  }
}

void abnormal_dump(char const *kind)
{
  Global &G = g();
  if (G.dumped) return;
  G.dumped = true;
  G.abnormal = kind;
  write_stats();
}

// _exit is intercepted by ThreadSanitizer (it takes the thread-registry lock, which the reporting
// thread may already hold): leave through the raw system call instead
[[noreturn]] void hard_exit(int code)
{
  syscall(SYS_exit_group, code);
  for (;;) {}
}

void death_cb() { abnormal_dump("sanitizer"); }

void on_abort(int)
{
  abnormal_dump("abort");
  std::signal(SIGABRT, SIG_DFL);
  hard_exit(134);
}

std::atomic<u64> g_last_evals{0};
std::atomic<int> g_stall{0};
int g_stall_limit = 30;

void on_tick(int)
{
  u64 now = 0;
  for (Sec &s : g().sections) now += s.evals;
  if (now == g_last_evals.load())
  {
    if (++g_stall >= g_stall_limit)
    {
      abnormal_dump("hang");
      hard_exit(124);
    }
  }
  else
  {
    g_stall = 0;
    g_last_evals = now;
  }
}

void on_terminate()
{
  Global &G = g();
  try
  {
    if (auto e = std::current_exception()) std::rethrow_exception(e);
  }
  catch (std::exception const &e)
  {
    G.abnormal_what = e.what();
  }
  catch (...)
  {
    G.abnormal_what = "non-std exception";
  }
  abnormal_dump("terminate");
  hard_exit(135);
}
}

CurState g_cur;

void write_stats_public() { write_stats(); }
Sec *find_section(std::string const &name)
{
  for (Sec &s : g().sections)
    if (s.name == name) return &s;
  return nullptr;
}

Opts &opts() { return g().opts; }

Sec &add_section(
    std::string name,
    Kind kind,
    std::string rule,
    std::function<void()> run,
    std::function<void(Ints const &)> one,
    std::function<std::string(Ints const &)> describe)
{
  Sec s;
  s.name = std::move(name);
  s.kind = kind;
  s.rule = std::move(rule);
  s.run = std::move(run);
  s.one = std::move(one);
  s.describe = std::move(describe);
  g().sections.push_back(std::move(s));
  return g().sections.back();
}

void cur_vec(Ints const &v)
{
  std::size_t n = v.size() < cur_max ? v.size() : cur_max;
  for (std::size_t i = 0; i < n; ++i) g_cur.ints[i] = v[i];
  g_cur.n = n;
}

Ints cur_get() { return Ints(g_cur.ints, g_cur.ints + g_cur.n); }

u64 hash_cur()
{
  u64 h = 1469598103934665603ULL;
  for (std::size_t i = 0; i < g_cur.n; ++i)
  {
    u64 x = static_cast<u64>(g_cur.ints[i]);
    for (int b = 0; b < 8; ++b)
    {
      h ^= (x >> (8 * b)) & 0xffU;
      h *= 1099511628211ULL;
    }
  }
  return h;
}

void take_sample(Sec &s)
{
  if (s.samples.size() < 12) s.samples.push_back(describe_case(s, cur_get()));
  s.next_sample = s.next_sample < 3 ? s.next_sample + 1 : s.next_sample * 4;
}

void cls(char const *label, u64 n) { g_cur.sec->classes[label] += n; }

void fail(std::string const &key, std::string const &what)
{
  Global &G = g();
  Sec &s = *g_cur.sec;
  Ints v = cur_get();
  if (G.opts.known.count(key))
  {
    auto &k = G.known_hits[key];
    if (k.first++ == 0) k.second = describe_case(s, v) + ": " + what;
    return;
  }
  G.case_failed = true;
  for (Violation &o : G.violations)
  {
    if (o.key == key && o.section == s.name)
    {
      // exhaustive sections enumerate in increasing size: keep the first; the random engine's
      // last failing call during shrinking is its minimum: keep the latest
      if (s.kind != Kind::exhaustive)
      {
        o.ints = v;
        o.what = what;
        o.text = describe_case(s, v);
      }
      return;
    }
  }
  if (G.violations.size() < 64)
  {
    G.violations.push_back(Violation{key, what, s.name, describe_case(s, v), v});
  }
}

bool is_known(std::string const &key) { return g().opts.known.count(key) != 0; }

bool known(std::string const &key)
{
  Global &G = g();
  if (G.opts.known.count(key))
  {
    ++g_cur.sec->excluded_known;
    auto &k = G.known_hits[key];
    if (k.first++ == 0) k.second = describe_case(*g_cur.sec, cur_get()) + ": excluded by construction";
    return true;
  }
  return false;
}

std::size_t violations_in_current()
{
  std::size_t n = 0;
  for (Violation const &v : g().violations)
    if (v.section == g_cur.sec->name) ++n;
  return n;
}

bool failed_in_current_case() { return g().case_failed; }
void reset_case_flag() { g().case_failed = false; }

std::string json_escape(std::string const &s)
{
  std::string r;
  for (unsigned char c : s)
  {
    switch (c)
    {
    case '"': r += "\\\""; break;
    case '\\': r += "\\\\"; break;
    case '\n': r += "\\n"; break;
    case '\t': r += "\\t"; break;
    case '\r': r += "\\r"; break;
    default:
      if (c < 0x20 || c >= 0x7f)
      {
        char b[8];
        std::snprintf(b, sizeof b, "\\u%04x", c);
        r += b;
      }
      else
        r += static_cast<char>(c);
    }
  }
  return r;
}

int harness_main(int argc, char **argv)
{
  Global &G = g();
  bool describe_only = false;
  for (int i = 1; i < argc; ++i)
  {
    std::string a = argv[i];
    auto next = [&]() -> std::string { return i + 1 < argc ? argv[++i] : ""; };
    if (a == "--tier") G.opts.tier = next();
    else if (a == "--seed") G.opts.seed = std::strtoull(next().c_str(), nullptr, 10);
    else if (a == "--shard") G.opts.shard = std::atoi(next().c_str());
    else if (a == "--nshards") G.opts.nshards = std::atoi(next().c_str());
    else if (a == "--out") G.opts.out = next();
    else if (a == "--only") G.opts.only = next();
    else if (a == "--list") G.opts.list = true;
    else if (a == "--stall") g_stall_limit = std::atoi(next().c_str());
    else if (a == "--known")
    {
      std::ifstream f(next());
      std::string line;
      while (std::getline(f, line))
        if (!line.empty()) G.opts.known.insert(line);
    }
    else if (a == "--replay" || a == "--describe")
    {
      G.opts.replay = true;
      describe_only = a == "--describe";
      G.opts.only = next();
      std::string ints = next();
      std::stringstream ss(ints);
      std::string tok;
      while (std::getline(ss, tok, ','))
        if (!tok.empty()) G.opts.replay_ints.push_back(std::strtoll(tok.c_str(), nullptr, 10));
    }
    else
    {
      std::cerr << "unknown argument " << a << "\n";
      return 2;
    }
  }
  if (G.opts.list)
  {
    for (Sec &s : G.sections)
      std::cout << s.name << " " << (s.kind == Kind::exhaustive ? "exhaustive" : "random") << "\n";
    return 0;
  }
  if (describe_only)
  {
    for (Sec &s : G.sections)
      if (s.name == G.opts.only) std::cout << describe_case(s, G.opts.replay_ints) << "\n";
    return 0;
  }
  if (__sanitizer_set_death_callback) __sanitizer_set_death_callback(death_cb);
  std::signal(SIGABRT, on_abort);
  std::set_terminate(on_terminate);
  {
    struct sigaction sa;
    std::memset(&sa, 0, sizeof sa);
    sa.sa_handler = on_tick;
    sigaction(SIGALRM, &sa, nullptr);
    itimerval it;
    it.it_interval.tv_sec = 1;
    it.it_interval.tv_usec = 0;
    it.it_value = it.it_interval;
    setitimer(ITIMER_REAL, &it, nullptr);
  }
  bool found = false;
  int idx = 0;
  for (Sec &s : G.sections)
  {
    if (!G.opts.only.empty() && s.name != G.opts.only) continue;
    found = true;
    int my = idx++;
    if (!G.opts.replay && (s.kind == Kind::exhaustive || !G.opts.thorough()) && !s.self_sharded && G.opts.nshards > 1 && my % G.opts.nshards != G.opts.shard)
      continue;
    g_cur.sec = &s;
    g_cur.n = 0;
    s.ran = true;
    if (G.opts.replay)
    {
      cur_vec(G.opts.replay_ints);
      s.one(G.opts.replay_ints);
    }
    else
    {
      auto const t0 = std::chrono::steady_clock::now();
      s.run();
      s.wall_s = std::chrono::duration<double>(std::chrono::steady_clock::now() - t0).count();
    }
    s.complete = true;
  }
  if (!found && !G.opts.only.empty())
  {
    std::cerr << "no such section: " << G.opts.only << "\n";
    return 2;
  }
  g_cur.sec = nullptr;
  write_stats();
  for (Violation const &v : G.violations)
    std::cerr << "violation " << v.key << ": " << v.text << ": " << v.what << "\n";
  return G.violations.empty() ? 0 : 1;
}
}

#ifndef VERIF_FUZZ
int main(int argc, char **argv) { return verif::harness_main(argc, argv); }
#else
// libFuzzer flavour (E3): the bytes are read as little-endian 32-bit words = the same integer case
// that the random engine generates; the section named by VERIF_FUZZ_SECTION is evaluated through
// its one() entry, so the semantic oracle (not just crash-waiting) decides. A failing case traps,
// so that libFuzzer keeps the input as a crash artefact.
namespace verif
{
bool run_random(Sec &, RcParams, RcParams) { return true; }
}
namespace
{
verif::Sec *g_fuzz_sec = nullptr;
void fuzz_atexit() { verif::write_stats_public(); }
}
extern "C" int LLVMFuzzerInitialize(int *, char ***)
{
  char const *name = std::getenv("VERIF_FUZZ_SECTION");
  char const *out = std::getenv("VERIF_FUZZ_OUT");
  if (out != nullptr) verif::opts().out = out;
  if (char const *tier = std::getenv("VERIF_TIER")) verif::opts().tier = tier;
  g_fuzz_sec = verif::find_section(name != nullptr ? name : "");
  if (g_fuzz_sec == nullptr)
  {
    std::fprintf(stderr, "VERIF_FUZZ_SECTION does not name a section\n");
    std::_Exit(2);
  }
  g_fuzz_sec->ran = true;
  g_fuzz_sec->kind = verif::Kind::fuzz;
  std::atexit(fuzz_atexit);
  return 0;
}
extern "C" int LLVMFuzzerTestOneInput(std::uint8_t const *data, std::size_t size)
{
  verif::Ints ints;
  std::size_t const n = size / 4 < verif::cur_max ? size / 4 : verif::cur_max;
  ints.reserve(n);
  for (std::size_t i = 0; i < n; ++i)
  {
    std::uint32_t w;
    std::memcpy(&w, data + 4 * i, 4);
    ints.push_back(static_cast<verif::i64>(w));
  }
  verif::g_cur.sec = g_fuzz_sec;
  verif::cur_vec(ints);
  verif::reset_case_flag();
  g_fuzz_sec->one(ints);
  if (verif::failed_in_current_case())
  {
    verif::write_stats_public();
    __builtin_trap();
  }
  g_fuzz_sec->complete = true;
  return 0;
}
#endif
