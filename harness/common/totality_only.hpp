// Included (after common/verif.hpp, before another property's harness source) by the C01 harnesses
// that re-run that property's generated histories under the "no UB / no crash / no hang / no
// undocumented exception" reading only: a value that differs from the model is the other property's
// business and is ignored here; sanitizer reports, assertion failures, escaping exceptions and
// stalls are detected by the runtime and the driver independently of fail().
#ifndef VERIF_TOTALITY_ONLY_HPP
#define VERIF_TOTALITY_ONLY_HPP
#include <string>
namespace
{
inline void totality_only_fail(std::string const &, std::string const &) {}
}
#define fail totality_only_fail
#endif
