// Common harness runtime: sections, counters, current-case tracking, violation / known-finding
// bookkeeping, stats JSON (also written from sanitizer-death, abort and watchdog handlers).
// No fcppt headers are used here; everything fcppt-specific lives in the per-property harnesses.
#ifndef VERIF_COMMON_VERIF_HPP
#define VERIF_COMMON_VERIF_HPP

#include <array>
#include <cstdint>
#include <cstdio>
#include <cstdlib>
#include <cstring>
#include <functional>
#include <initializer_list>
#include <map>
#include <set>
#include <sstream>
#include <string>
#include <unordered_set>
#include <vector>

namespace verif
{
using i64 = long long;
using u64 = unsigned long long;
using Frame = std::array<std::uint32_t, 4>;
using Frames = std::vector<Frame>;
using Ints = std::vector<i64>;

struct Opts
{
  std::string tier{"quick"};
  u64 seed{1};
  int shard{0};
  int nshards{1};
  std::string out;
  std::set<std::string> known;
  std::string only;
  bool replay{false};
  Ints replay_ints;
  bool list{false};
  bool thorough() const { return tier == "thorough"; }
};
Opts &opts();

enum class Kind
{
  exhaustive, // run() enumerates a finite domain completely (every case distinct)
  random, // run() drives one() through the rapidcheck engine (cases hashed for distinctness)
  fuzz // libFuzzer-driven (built separately), same one()
};

struct Sec
{
  std::string name;
  Kind kind;
  std::string rule; // non-trivial rule of this section, in words
  std::function<void()> run;
  std::function<void(Ints const &)> one; // evaluate exactly one case (also the replay entry)
  std::function<std::string(Ints const &)> describe; // pretty-print a case
  // counters
  u64 evals{0}, nontrivial{0}, skipped{0}, excluded_known{0};
  std::unordered_set<u64> seen;
  std::map<std::string, u64> classes;
  std::vector<std::string> samples;
  u64 next_sample{1};
  bool complete{false};
  bool self_sharded{false}; // run() splits its own domain over the shards (runs on every shard)
  double wall_s{0};
  bool ran{false};
};

// Registration ------------------------------------------------------------------------------
Sec &add_section(
    std::string name,
    Kind kind,
    std::string rule,
    std::function<void()> run,
    std::function<void(Ints const &)> one,
    std::function<std::string(Ints const &)> describe = {});

struct Reg
{
  Reg(std::string name,
      Kind kind,
      std::string rule,
      std::function<void()> run,
      std::function<void(Ints const &)> one,
      std::function<std::string(Ints const &)> describe = {})
  {
    add_section(std::move(name), kind, std::move(rule), std::move(run), std::move(one), std::move(describe));
  }
};

// Current case -------------------------------------------------------------------------------
constexpr std::size_t cur_max = 4096;
struct CurState
{
  Sec *sec{nullptr};
  i64 ints[cur_max];
  std::size_t n{0};
  bool truncated{false};
};
extern CurState g_cur;

inline void cur(std::initializer_list<i64> v)
{
  std::size_t i = 0;
  for (i64 x : v)
  {
    g_cur.ints[i++] = x;
  }
  g_cur.n = i;
}
inline void cur1(i64 a) { g_cur.ints[0] = a; g_cur.n = 1; }
inline void cur2(i64 a, i64 b) { g_cur.ints[0] = a; g_cur.ints[1] = b; g_cur.n = 2; }
inline void cur3(i64 a, i64 b, i64 c) { g_cur.ints[0] = a; g_cur.ints[1] = b; g_cur.ints[2] = c; g_cur.n = 3; }
inline void cur4(i64 a, i64 b, i64 c, i64 d)
{
  g_cur.ints[0] = a; g_cur.ints[1] = b; g_cur.ints[2] = c; g_cur.ints[3] = d; g_cur.n = 4;
}
void cur_vec(Ints const &);
Ints cur_get();

// Counting -----------------------------------------------------------------------------------
void take_sample(Sec &);
u64 hash_cur();

inline void count(bool nontrivial)
{
  Sec &s = *g_cur.sec;
  ++s.evals;
  if (nontrivial)
  {
    if (s.kind == Kind::exhaustive)
    {
      ++s.nontrivial;
    }
    else if (s.seen.insert(hash_cur()).second)
    {
      ++s.nontrivial;
    }
  }
  if (s.evals == s.next_sample)
  {
    take_sample(s);
  }
}
inline void skip() { ++g_cur.sec->skipped; }
void cls(char const *label, u64 n = 1);

// Verdicts -----------------------------------------------------------------------------------
// key: "<call site>|<sub-check>|<input class>" - identifies a root cause, used for known findings.
void fail(std::string const &key, std::string const &what);
// true if `key` is a listed known finding: the caller must then skip the case (excluded by
// construction, counted) instead of running code that would abort the process.
bool known(std::string const &key);
// the same test without counting (for caching the answer outside hot loops)
bool is_known(std::string const &key);
// number of unlisted violations recorded so far in the current section
std::size_t violations_in_current();
bool failed_in_current_case();
void reset_case_flag();

// Helpers ------------------------------------------------------------------------------------
std::string json_escape(std::string const &);
template <typename T>
std::string str(T const &v)
{
  std::ostringstream o;
  o << v;
  return o.str();
}
inline std::string str(signed char v) { return std::to_string(static_cast<int>(v)); }
inline std::string str(unsigned char v) { return std::to_string(static_cast<unsigned>(v)); }
inline std::string str(__int128 v)
{
  if (v == 0) return "0";
  bool neg = v < 0;
  unsigned __int128 u = neg ? -static_cast<unsigned __int128>(v) : static_cast<unsigned __int128>(v);
  std::string r;
  while (u) { r.insert(r.begin(), static_cast<char>('0' + static_cast<int>(u % 10))); u /= 10; }
  return neg ? "-" + r : r;
}

// Cursor over a sequence of bounded integer choices; yields the lower bound when exhausted, so
// decoding is total.
class Choices
{
public:
  explicit Choices(Ints const &v) : v_(&v) {}
  bool empty() const { return pos_ >= v_->size(); }
  std::size_t remaining() const { return pos_ >= v_->size() ? 0 : v_->size() - pos_; }
  u64 raw()
  {
    if (pos_ >= v_->size()) return 0;
    return static_cast<u64>((*v_)[pos_++]);
  }
  // integer in [lo,hi]
  i64 range(i64 lo, i64 hi)
  {
    if (hi <= lo) { raw(); return lo; }
    u64 span = static_cast<u64>(hi - lo) + 1U;
    return lo + static_cast<i64>(raw() % span);
  }
  std::size_t index(std::size_t n) { return n == 0 ? 0 : static_cast<std::size_t>(raw() % n); }
  bool flag() { return (raw() & 1U) != 0; }
  void skip_to_frame()
  {
    while (pos_ % 4 != 0) ++pos_;
  }
private:
  Ints const *v_;
  std::size_t pos_{0};
};

// Random engine (rapidcheck, implemented in rc_engine.cpp so that harness TUs need not include
// rapidcheck). Generates frame vectors, calls one() on the flattened ints, shrinks failures.
// Returns true if no unlisted violation was found.
struct RcParams
{
  int cases;
  int max_frames;
};
bool run_random(Sec &sec, RcParams quick, RcParams thorough);

// 64-bit boundary lattice for an integer type
template <typename T>
std::vector<T> lattice()
{
  std::set<T> s;
  using L = std::numeric_limits<T>;
  auto add = [&](__int128 v) {
    if (v >= static_cast<__int128>(L::min()) && v <= static_cast<__int128>(L::max())) s.insert(static_cast<T>(v));
  };
  for (int d = -2; d <= 2; ++d)
  {
    add(d);
    add(static_cast<__int128>(L::min()) + d);
    add(static_cast<__int128>(L::max()) + d);
    for (int k = 1; k < 64; ++k)
    {
      __int128 p = static_cast<__int128>(1) << k;
      add(p + d);
      add(-p + d);
    }
  }
  add(3); add(5); add(7); add(10); add(100); add(-3); add(-5); add(-7); add(-10); add(-100);
  return std::vector<T>(s.begin(), s.end());
}

template <typename T>
bool on_lattice(T v)
{
  using L = std::numeric_limits<T>;
  __int128 x = v;
  auto near = [&](__int128 c) { return x - c <= 2 && c - x <= 2; };
  if (near(0) || near(L::min()) || near(L::max())) return true;
  for (int k = 1; k < 64; ++k)
  {
    __int128 p = static_cast<__int128>(1) << k;
    if (near(p) || near(-p)) return true;
  }
  return false;
}

// splitmix for deterministic per-seed pseudo random values in "exhaustive+random" sections
struct SplitMix
{
  u64 s;
  explicit SplitMix(u64 seed) : s(seed) {}
  u64 next()
  {
    u64 z = (s += 0x9e3779b97f4a7c15ULL);
    z = (z ^ (z >> 30)) * 0xbf58476d1ce4e5b9ULL;
    z = (z ^ (z >> 27)) * 0x94d049bb133111ebULL;
    return z ^ (z >> 31);
  }
};

int harness_main(int argc, char **argv);
void write_stats_public();
Sec *find_section(std::string const &name);
}

#define VERIF_CAT2(a, b) a##b
#define VERIF_CAT(a, b) VERIF_CAT2(a, b)

// A type-level / compile-time fact about the library that a property relies on: checked where it is
// used, but reported as a run-time violation rather than by a static assertion, so that a tree in
// which it is false yields a VIOLATION of the property and not a harness that does not compile.
#define VERIF_TYPE_FACT(cond, text)                                                              \
  do                                                                                             \
  {                                                                                              \
    if constexpr (!(cond)) ::verif::fail("type-level-fact|" text, "does not hold: " text);       \
  } while (false)

#endif
