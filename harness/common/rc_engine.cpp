// The rapidcheck engine (E1). Kept in its own translation unit so that harness TUs do not pay for
// the rapidcheck headers. Generates vectors of 4-word frames; the harness decodes them with
// verif::Choices (total decoding, so every shrink candidate is a valid case). rapidcheck shrinks
// by dropping frames and shrinking words toward 0.
#include "verif.hpp"

#include <rapidcheck.h>

#include <iostream>

namespace verif
{
bool run_random(Sec &sec, RcParams quick, RcParams thorough)
{
  RcParams const p = opts().thorough() ? thorough : quick;
  rc::detail::TestParams params;
  params.seed = opts().seed * 1000003ULL + static_cast<u64>(opts().shard) * 7919ULL + std::hash<std::string>{}(sec.name) % 1000ULL;
  params.maxSuccess = p.cases;
  params.maxSize = p.max_frames;
  params.maxDiscardRatio = 10;
  rc::detail::TestMetadata meta;
  meta.id = sec.name;
  meta.description = sec.name;

  auto const word = rc::gen::resize(100, rc::gen::arbitrary<std::uint32_t>());
  auto const frame = rc::gen::container<Frame>(word);
  auto const frames = rc::gen::container<Frames>(frame);

  std::size_t const before = violations_in_current();

  auto const result = rc::detail::checkTestable(
      [&]() {
        Frames const fr = *frames;
        Ints ints;
        ints.reserve(fr.size() * 4);
        for (Frame const &f : fr)
          for (std::uint32_t w : f) ints.push_back(static_cast<i64>(w));
        cur_vec(ints);
        reset_case_flag();
        sec.one(ints);
        if (failed_in_current_case())
        {
          RC_FAIL("oracle reported a violation");
        }
      },
      meta,
      params);

  if (!result.template is<rc::detail::SuccessResult>())
  {
    rc::detail::printResultMessage(result, std::cerr);
    std::cerr << std::endl;
    if (result.template is<rc::detail::GaveUpResult>() || result.template is<rc::detail::Error>())
    {
      // A generator problem, not a property violation: the run is broken, never "violated".
      std::cerr << "rapidcheck gave up / error in section " << sec.name << "\n";
      std::exit(3);
    }
  }
  return violations_in_current() == before;
}
}
