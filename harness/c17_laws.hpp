// C17 - shared law checker: for a finite value set of one type, all pairs and triples are checked
// for the equivalence / strict-weak-order / hash-coherence laws against the observable components.
//
// Every value set is built once per process from a deterministic builder. For each value the
// harness records
//   obs  - the observable components, read back from the finished value through the public
//          accessors (never from the arguments it was built from),
//   key  - the documented order key (compared lexicographically as integer sequences),
//   how  - an id of the way it was built ("equal but built differently" = equal obs, different how).
// Oracle: == must hold exactly when obs are equal, != is the negation, < is compared with the
// lexicographic order of key where the order is documented and otherwise only checked for the
// strict-weak-order laws and compatibility with ==; <=, >, >= must be consistent with <;
// equal values must have equal hashes for every hash function object offered.
#ifndef VERIF_C17_LAWS_HPP
#define VERIF_C17_LAWS_HPP

#include "verif.hpp"

#include <functional>
#include <memory>
#include <string>
#include <utility>
#include <vector>

namespace c17
{
using namespace verif;

template <typename T>
struct Entry
{
  T v;
  int how;
  std::string text;
  char const *known; // key of a listed finding this value is known to trigger (or nullptr)
  Ints obs;
  Ints key;
};

template <typename T>
using Entries = std::vector<Entry<T>>;

template <typename T>
void put(Entries<T> &e, T v, int how, std::string text, char const *known = nullptr)
{
  e.push_back(Entry<T>{std::move(v), how, std::move(text), known, {}, {}});
}

inline std::string ints_str(Ints const &v)
{
  std::string r = "[";
  for (std::size_t i = 0; i < v.size(); ++i) r += (i ? "," : "") + std::to_string(v[i]);
  return r + "]";
}

// number of differing components (missing components count as differing)
inline std::size_t distance(Ints const &a, Ints const &b)
{
  std::size_t const n = std::min(a.size(), b.size());
  std::size_t d = std::max(a.size(), b.size()) - n;
  for (std::size_t i = 0; i < n; ++i) d += a[i] != b[i];
  return d;
}

enum class Order
{
  none, // no operator<
  laws, // operator< offered, order not documented: laws only
  documented // operator< documented as the lexicographic order of key
};

template <typename T, Order Ord, bool Rel>
struct Laws
{
  std::string name; // type name used in keys
  std::function<void(Entries<T> &)> build;
  std::function<Ints(T const &)> obs;
  std::function<Ints(T const &)> key; // may be empty: key = obs
  std::vector<std::pair<std::string, std::function<std::size_t(T const &)>>> hashes;
  // further equality predicates that are documented to coincide with ==
  std::vector<std::pair<std::string, std::function<bool(T const &, T const &)>>> equalities;
  Entries<T> vals;
  bool built{false};

  void ensure()
  {
    if (built) return;
    built = true;
    build(vals);
    for (Entry<T> &e : vals)
    {
      e.obs = obs(e.v);
      e.key = key ? key(e.v) : e.obs;
    }
  }

  std::string show(std::size_t i) const
  {
    Entry<T> const &e = vals[i];
    return "#" + std::to_string(i) + " " + e.text + " components " + ints_str(e.obs);
  }

  std::string k(Entry<T> const &a, Entry<T> const &b, char const *sub, char const *cls) const
  {
    if (a.known) return a.known;
    if (b.known) return b.known;
    return name + "|" + sub + "|" + cls;
  }

  void pair(std::size_t i, std::size_t j)
  {
    Entry<T> const &a = vals[i], &b = vals[j];
    bool const same = a.obs == b.obs;
    count(same ? (i != j && a.how != b.how) : distance(a.obs, b.obs) == 1);
    char const *const cls = same ? (i == j ? "same-object" : "equal-components") : "different-components";
    std::string const ctx = name + ": " + show(i) + " vs " + show(j);
    bool const eq = a.v == b.v;
    if (eq != same)
      fail(k(a, b, "operator==", cls), ctx + ": == gives " + (eq ? "true" : "false") + ", components are " + (same ? "equal" : "different"));
    bool const ne = a.v != b.v;
    if (ne == same)
      fail(k(a, b, "operator!=", cls), ctx + ": != gives " + (ne ? "true" : "false") + ", components are " + (same ? "equal" : "different"));
    for (auto const &p : equalities)
      if (p.second(a.v, b.v) != same)
        fail(k(a, b, p.first.c_str(), cls), ctx + ": " + p.first + " gives " + (same ? "false" : "true"));
    if (same)
      for (auto const &h : hashes)
      {
        std::size_t const ha = h.second(a.v), hb = h.second(b.v);
        if (ha != hb)
          fail(k(a, b, h.first.c_str(), "equal-values-different-hash"), ctx + ": equal values, " + h.first + " gives " + std::to_string(ha) + " and " + std::to_string(hb));
      }
    if constexpr (Ord != Order::none)
    {
      bool const lt = a.v < b.v, gt = b.v < a.v;
      if (i == j && lt) fail(k(a, b, "operator<", "irreflexive"), ctx + ": a < a");
      if (lt && gt) fail(k(a, b, "operator<", "asymmetric"), ctx + ": a < b and b < a");
      if (static_cast<int>(lt) + static_cast<int>(gt) + static_cast<int>(same) != 1)
        fail(k(a, b, "operator<", same ? "equal-but-ordered" : "different-but-unordered"), ctx + ": a<b=" + std::to_string(lt) + " b<a=" + std::to_string(gt) + ", components " + (same ? "equal" : "different"));
      if constexpr (Ord == Order::documented)
      {
        bool const expect = a.key < b.key;
        if (lt != expect)
          fail(k(a, b, "operator<", "documented-order"), ctx + ": a < b gives " + std::to_string(lt) + ", order keys " + ints_str(a.key) + " and " + ints_str(b.key));
      }
      if constexpr (Rel)
      {
        if ((a.v > b.v) != gt) fail(k(a, b, "operator>", "consistent-with-<"), ctx + ": a > b differs from b < a");
        if ((a.v <= b.v) != !gt) fail(k(a, b, "operator<=", "consistent-with-<"), ctx + ": a <= b differs from !(b < a)");
        if ((a.v >= b.v) != !lt) fail(k(a, b, "operator>=", "consistent-with-<"), ctx + ": a >= b differs from !(a < b)");
      }
    }
  }

  void triple(std::size_t i, std::size_t j, std::size_t l)
  {
    Entry<T> const &a = vals[i], &b = vals[j], &c = vals[l];
    bool const ab = a.obs == b.obs, bc = b.obs == c.obs;
    // non-trivial: a chain of neighbours (each step differs in one component) or of equal values
    // that are not all the same object
    count((ab ? i != j : distance(a.obs, b.obs) == 1) && (bc ? j != l : distance(b.obs, c.obs) == 1));
    auto ctx = [&] { return name + ": " + show(i) + ", " + show(j) + ", " + show(l); };
    if (a.v == b.v && b.v == c.v && !(a.v == c.v))
      fail(a.known ? a.known : b.known ? b.known : c.known ? c.known : name + "|operator==|transitive", ctx() + ": a==b, b==c, not a==c");
    if constexpr (Ord != Order::none)
    {
      bool const lab = a.v < b.v, lbc = b.v < c.v, lac = a.v < c.v;
      if (lab && lbc && !lac) fail(name + "|operator<|transitive", ctx() + ": a<b, b<c, not a<c");
      bool const lba = b.v < a.v, lcb = c.v < b.v, lca = c.v < a.v;
      if (!lab && !lba && !lbc && !lcb && (lac || lca))
        fail(name + "|operator<|incomparability-transitive", ctx() + ": a~b, b~c, but a and c are ordered");
    }
  }

  void run()
  {
    ensure();
    std::size_t const n = vals.size();
    for (std::size_t i = 0; i < n; ++i)
      for (std::size_t j = 0; j < n; ++j)
      {
        cur2(static_cast<i64>(i), static_cast<i64>(j));
        pair(i, j);
      }
    for (std::size_t i = 0; i < n; ++i)
      for (std::size_t j = 0; j < n; ++j)
        for (std::size_t l = 0; l < n; ++l)
        {
          cur3(static_cast<i64>(i), static_cast<i64>(j), static_cast<i64>(l));
          triple(i, j, l);
        }
  }
  void one(Ints const &c)
  {
    ensure();
    std::size_t const n = vals.size();
    if (n == 0 || c.size() < 2) return;
    std::size_t const i = static_cast<std::size_t>(c[0]) % n, j = static_cast<std::size_t>(c[1]) % n;
    if (c.size() >= 3)
      triple(i, j, static_cast<std::size_t>(c[2]) % n);
    else
      pair(i, j);
  }
  std::string describe(Ints const &c)
  {
    ensure();
    std::size_t const n = vals.size();
    if (n == 0 || c.size() < 2) return name;
    std::string r = name + " " + show(static_cast<std::size_t>(c[0]) % n) + " / " + show(static_cast<std::size_t>(c[1]) % n);
    if (c.size() >= 3) r += " / " + show(static_cast<std::size_t>(c[2]) % n);
    return r;
  }
};

template <typename T, Order Ord, bool Rel>
void add_laws(std::shared_ptr<Laws<T, Ord, Rel>> l)
{
  std::string ops = "==, !=";
  if (Ord != Order::none) ops += Ord == Order::documented ? ", < (documented order)" : ", < (laws)";
  if (Rel) ops += ", <=, >, >=";
  if (!l->hashes.empty()) ops += ", hash";
  add_section(
      "laws_" + l->name, Kind::exhaustive,
      "all pairs and triples of the value set of " + l->name + " (" + ops + "); a pair is non-trivial when the values differ in exactly one observable component or are equal but were built in different ways, a triple when both of its steps are",
      [l] { l->run(); }, [l](Ints const &c) { l->one(c); }, [l](Ints const &c) { return l->describe(c); });
}

template <typename T, Order Ord, bool Rel>
struct RegLaws
{
  explicit RegLaws(Laws<T, Ord, Rel> l) { add_laws(std::make_shared<Laws<T, Ord, Rel>>(std::move(l))); }
};
}

#endif
