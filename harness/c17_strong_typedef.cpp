// VERIF: quick_shards=4
// C17 (part 1) - strong_typedef operators are transparent: every arithmetic / bitwise / assigning /
// comparison operator gives exactly the wrapped result of the built-in operator on the underlying
// values; hash and type_iso expose exactly the wrapped value; reference, recursive, unique_ptr and
// shared_ptr expose exactly the wrapped object.
// Oracle: the built-in operator evaluated on plain integers (signed: in a wider type, the domain
// [-128,127]^2 cannot overflow int; unsigned: in 64 bits reduced modulo 2^32).
#include <algorithm>
#include <limits>

#include "c17_laws.hpp"

#include <fcppt/hash.hpp>
#include <fcppt/make_cref.hpp>
#include <fcppt/make_ref.hpp>
#include <fcppt/make_shared_ptr.hpp>
#include <fcppt/make_strong_typedef.hpp>
#include <fcppt/make_unique_ptr.hpp>
#include <fcppt/recursive.hpp>
#include <fcppt/recursive_comparison.hpp>
#include <fcppt/reference.hpp>
#include <fcppt/reference_comparison.hpp>
#include <fcppt/reference_hash.hpp>
#include <fcppt/reference_std_hash.hpp>
#include <fcppt/reference_to_base.hpp>
#include <fcppt/reference_to_const.hpp>
#include <fcppt/shared_ptr.hpp>
#include <fcppt/shared_ptr_hash_decl.hpp>
#include <fcppt/shared_ptr_hash_impl.hpp>
#include <fcppt/shared_ptr_std_hash.hpp>
#include <fcppt/strong_typedef.hpp>
#include <fcppt/strong_typedef_arithmetic.hpp>
#include <fcppt/strong_typedef_assignment.hpp>
#include <fcppt/strong_typedef_bitwise.hpp>
#include <fcppt/strong_typedef_comparison.hpp>
#include <fcppt/strong_typedef_hash.hpp>
#include <fcppt/strong_typedef_std_hash.hpp>
#include <fcppt/unique_ptr.hpp>
#include <fcppt/unique_ptr_to_base.hpp>
#include <fcppt/unique_ptr_to_const.hpp>
#include <fcppt/unit.hpp>
#include <fcppt/unit_comparison.hpp>
#include <fcppt/type_iso/strong_typedef.hpp>
#include <fcppt/type_iso/decorate.hpp>
#include <fcppt/type_iso/undecorate.hpp>

#include <cstdint>
#include <functional>
#include <string>

using namespace verif;

namespace
{
FCPPT_MAKE_STRONG_TYPEDEF(int, sint);
FCPPT_MAKE_STRONG_TYPEDEF(unsigned, suint);
FCPPT_MAKE_STRONG_TYPEDEF(std::int64_t, s64);

// one operator application: returns true if everything matched
#define C17_CHECK(cond, key, text) \
  do \
  { \
    if (!(cond)) fail(key, std::string(text) + " for operands " + std::to_string(a) + ", " + std::to_string(b)); \
  } while (false)

// ------------------------------------------------------------------ strong_typedef<int>
void sint_pair(i64 a, i64 b)
{
  int const x = static_cast<int>(a), y = static_cast<int>(b);
  count(a == b || a == 0 || b == 0 || a == -b || a == b + 1 || a + 1 == b || a == -128 || a == 127 || b == -128 || b == 127);
  sint const sx{x}, sy{y};
  // arithmetic (mathematical value in 64 bits; never leaves the range of int on this domain)
  C17_CHECK((sx + sy).get() == a + b, "strong_typedef<int>|operator+|value", "a + b");
  C17_CHECK((sx - sy).get() == a - b, "strong_typedef<int>|operator-|value", "a - b");
  C17_CHECK((sx * sy).get() == a * b, "strong_typedef<int>|operator*|value", "a * b");
  C17_CHECK((-sx).get() == -a, "strong_typedef<int>|unary-minus|value", "-a");
  // operands are untouched
  C17_CHECK(sx.get() == a && sy.get() == b, "strong_typedef<int>|binary-operator|operand-modified", "operand changed");
  // bitwise: reference on the two's complement pattern of the 64-bit value
  C17_CHECK((sx & sy).get() == (a & b), "strong_typedef<int>|operator&|value", "a & b");
  C17_CHECK((sx | sy).get() == (a | b), "strong_typedef<int>|operator-or|value", "a | b");
  C17_CHECK((sx ^ sy).get() == (a ^ b), "strong_typedef<int>|operator^|value", "a ^ b");
  C17_CHECK((~sx).get() == -a - 1, "strong_typedef<int>|operator~|value", "~a");
  // comparison
  C17_CHECK((sx == sy) == (a == b), "strong_typedef<int>|operator==|value", "a == b");
  C17_CHECK((sx != sy) == (a != b), "strong_typedef<int>|operator!=|value", "a != b");
  C17_CHECK((sx < sy) == (a < b), "strong_typedef<int>|operator<|value", "a < b");
  C17_CHECK((sx <= sy) == (a <= b), "strong_typedef<int>|operator<=|value", "a <= b");
  C17_CHECK((sx > sy) == (a > b), "strong_typedef<int>|operator>|value", "a > b");
  C17_CHECK((sx >= sy) == (a >= b), "strong_typedef<int>|operator>=|value", "a >= b");
  // assigning operators: result in the left operand, a reference to it is returned, right untouched
  {
    sint l{x};
    sint &r = (l += sy);
    C17_CHECK(&r == &l && l.get() == a + b && sy.get() == b, "strong_typedef<int>|operator+=|value", "a += b");
  }
  {
    sint l{x};
    sint &r = (l -= sy);
    C17_CHECK(&r == &l && l.get() == a - b && sy.get() == b, "strong_typedef<int>|operator-=|value", "a -= b");
  }
  {
    sint l{x};
    sint &r = (l *= sy);
    C17_CHECK(&r == &l && l.get() == a * b && sy.get() == b, "strong_typedef<int>|operator*=|value", "a *= b");
  }
  {
    sint l{x};
    sint &r = (l &= sy);
    C17_CHECK(&r == &l && l.get() == (a & b) && sy.get() == b, "strong_typedef<int>|operator&=|value", "a &= b");
  }
  {
    sint l{x};
    sint &r = (l |= sy);
    C17_CHECK(&r == &l && l.get() == (a | b) && sy.get() == b, "strong_typedef<int>|operator-or=|value", "a |= b");
  }
  {
    sint l{x};
    sint &r = (l ^= sy);
    C17_CHECK(&r == &l && l.get() == (a ^ b) && sy.get() == b, "strong_typedef<int>|operator^=|value", "a ^= b");
  }
  // hash coherence: equal values have equal hashes, for each of the three hash entry points
  if (a == b)
  {
    C17_CHECK(fcppt::strong_typedef_hash<sint>{}(sx) == fcppt::strong_typedef_hash<sint>{}(sy), "strong_typedef<int>|strong_typedef_hash|equal-values-different-hash", "strong_typedef_hash");
    C17_CHECK(std::hash<sint>{}(sx) == std::hash<sint>{}(sy), "strong_typedef<int>|std::hash|equal-values-different-hash", "std::hash");
    C17_CHECK(fcppt::hash(sx) == fcppt::hash(sy), "strong_typedef<int>|fcppt::hash|equal-values-different-hash", "fcppt::hash");
  }
}

void sint_unary(i64 a)
{
  i64 const b = 0;
  int const x = static_cast<int>(a);
  count(a == 0 || a == -1 || a == 1 || a == -128 || a == 127);
  {
    sint v{x};
    sint &r = ++v;
    C17_CHECK(&r == &v && v.get() == a + 1, "strong_typedef<int>|pre-increment|value", "++a");
  }
  {
    sint v{x};
    sint &r = --v;
    C17_CHECK(&r == &v && v.get() == a - 1, "strong_typedef<int>|pre-decrement|value", "--a");
  }
  {
    sint v{x};
    sint const old = v++;
    C17_CHECK(old.get() == a && v.get() == a + 1, "strong_typedef<int>|post-increment|value", "a++");
  }
  {
    sint v{x};
    sint const old = v--;
    C17_CHECK(old.get() == a && v.get() == a - 1, "strong_typedef<int>|post-decrement|value", "a--");
  }
  // type_iso: decorate wraps exactly the value, undecorate returns exactly the wrapped value
  C17_CHECK(fcppt::type_iso::decorate<sint>(x).get() == a, "type_iso::decorate|strong_typedef|value", "decorate");
  C17_CHECK(fcppt::type_iso::undecorate(sint{x}) == a, "type_iso::undecorate|strong_typedef|value", "undecorate");
  C17_CHECK(fcppt::type_iso::transform<sint>::undecorate(fcppt::type_iso::transform<sint>::decorate(x)) == a, "type_iso::transform|strong_typedef|round-trip", "transform round trip");
  // get() exposes the stored object itself
  {
    sint v{x};
    v.get() = x + 1;
    sint const &cv = v;
    C17_CHECK(cv.get() == a + 1 && &cv.get() == &v.get(), "strong_typedef<int>|get|exposes-stored-object", "get()");
  }
}

// operands are enumerated from 0 outwards (0,-1,1,-2,...) so that the first failing pair is small
i64 outward(i64 i) { return i % 2 == 0 ? i / 2 : -(i + 1) / 2; }
i64 sint_limit() { return opts().thorough() ? 4000 : 128; }

Reg const r_sint_pairs{
    "strong_typedef_int_pairs", Kind::exhaustive,
    "all operand pairs in [-128,127]^2 (thorough: [-4000,3999]^2) for + - * & | ^, the six comparisons, the six assigning operators, unary - and ~, hashes; non-trivial when an operand is 0, -128 or 127, or the operands are equal, opposite or adjacent",
    [] {
      i64 const n = 2 * sint_limit();
      for (i64 i = 0; i < n; ++i)
        for (i64 j = 0; j < n; ++j)
        {
          i64 const a = outward(i), b = outward(j);
          cur2(a, b);
          sint_pair(a, b);
        }
    },
    [](Ints const &c) { sint_pair(c.at(0), c.at(1)); },
    [](Ints const &c) { return "strong_typedef<int> operands " + std::to_string(c.at(0)) + ", " + std::to_string(c.at(1)); }};

Reg const r_sint_unary{
    "strong_typedef_int_unary", Kind::exhaustive,
    "every operand in [-128,127] for ++ and -- (pre and post), type_iso decorate/undecorate, get(); non-trivial at 0, +-1 and the bounds of the domain",
    [] {
      for (i64 i = 0; i < 2 * sint_limit(); ++i)
      {
        cur1(outward(i));
        sint_unary(outward(i));
      }
    },
    [](Ints const &c) { sint_unary(c.at(0)); },
    [](Ints const &c) { return "strong_typedef<int> operand " + std::to_string(c.at(0)); }};

// ------------------------------------------------------------------ strong_typedef<unsigned>
std::vector<std::uint32_t> const &uvalues()
{
  static std::vector<std::uint32_t> const v = [] {
    std::vector<std::uint32_t> r;
    for (std::uint32_t base : {0U, 0x80U, 0x100U, 0x8000U, 0x10000U, 0x40000000U, 0x7fffffffU, 0x80000000U, 0xc0000000U, 0xffff0000U, 0xffffffffU})
      for (int d = -2; d <= 2; ++d) r.push_back(base + static_cast<std::uint32_t>(d));
    for (std::uint32_t x : {0x55555555U, 0xaaaaaaaaU, 0x0f0f0f0fU, 0xf0f0f0f0U, 0x12345678U, 0xfedcba98U, 46341U, 46340U, 65537U, 3U, 5U, 7U}) r.push_back(x);
    std::sort(r.begin(), r.end());
    r.erase(std::unique(r.begin(), r.end()), r.end());
    return r;
  }();
  return v;
}

void suint_pair(i64 ia, i64 ib)
{
  u64 const a = static_cast<u64>(ia) & 0xffffffffULL, b = static_cast<u64>(ib) & 0xffffffffULL;
  u64 const m = 0xffffffffULL;
  // does the exact result leave [0, 2^32)?
  bool const wraps = a + b > m || a < b || a * b > m;
  count(wraps || a == b || a == 0 || b == 0);
  suint const sx{static_cast<unsigned>(a)}, sy{static_cast<unsigned>(b)};
  static_assert(sizeof(unsigned) == 4);
  C17_CHECK((sx + sy).get() == ((a + b) & m), "strong_typedef<unsigned>|operator+|value", "a + b");
  C17_CHECK((sx - sy).get() == ((a + (m + 1) - b) & m), "strong_typedef<unsigned>|operator-|value", "a - b");
  C17_CHECK((sx * sy).get() == ((a * b) & m), "strong_typedef<unsigned>|operator*|value", "a * b");
  C17_CHECK((-sx).get() == (((m + 1) - a) & m), "strong_typedef<unsigned>|unary-minus|value", "-a");
  C17_CHECK((sx & sy).get() == (a & b), "strong_typedef<unsigned>|operator&|value", "a & b");
  C17_CHECK((sx | sy).get() == (a | b), "strong_typedef<unsigned>|operator-or|value", "a | b");
  C17_CHECK((sx ^ sy).get() == (a ^ b), "strong_typedef<unsigned>|operator^|value", "a ^ b");
  C17_CHECK((~sx).get() == (m - a), "strong_typedef<unsigned>|operator~|value", "~a");
  C17_CHECK((sx == sy) == (a == b), "strong_typedef<unsigned>|operator==|value", "a == b");
  C17_CHECK((sx != sy) == (a != b), "strong_typedef<unsigned>|operator!=|value", "a != b");
  C17_CHECK((sx < sy) == (a < b), "strong_typedef<unsigned>|operator<|value", "a < b");
  C17_CHECK((sx <= sy) == (a <= b), "strong_typedef<unsigned>|operator<=|value", "a <= b");
  C17_CHECK((sx > sy) == (a > b), "strong_typedef<unsigned>|operator>|value", "a > b");
  C17_CHECK((sx >= sy) == (a >= b), "strong_typedef<unsigned>|operator>=|value", "a >= b");
  {
    suint l{static_cast<unsigned>(a)};
    suint &r = (l += sy);
    C17_CHECK(&r == &l && l.get() == ((a + b) & m), "strong_typedef<unsigned>|operator+=|value", "a += b");
  }
  {
    suint l{static_cast<unsigned>(a)};
    suint &r = (l -= sy);
    C17_CHECK(&r == &l && l.get() == ((a + (m + 1) - b) & m), "strong_typedef<unsigned>|operator-=|value", "a -= b");
  }
  {
    suint l{static_cast<unsigned>(a)};
    suint &r = (l *= sy);
    C17_CHECK(&r == &l && l.get() == ((a * b) & m), "strong_typedef<unsigned>|operator*=|value", "a *= b");
  }
  {
    suint l{static_cast<unsigned>(a)};
    suint &r = (l &= sy);
    C17_CHECK(&r == &l && l.get() == (a & b), "strong_typedef<unsigned>|operator&=|value", "a &= b");
  }
  {
    suint l{static_cast<unsigned>(a)};
    suint &r = (l |= sy);
    C17_CHECK(&r == &l && l.get() == (a | b), "strong_typedef<unsigned>|operator-or=|value", "a |= b");
  }
  {
    suint l{static_cast<unsigned>(a)};
    suint &r = (l ^= sy);
    C17_CHECK(&r == &l && l.get() == (a ^ b), "strong_typedef<unsigned>|operator^=|value", "a ^= b");
  }
  C17_CHECK(sx.get() == a && sy.get() == b, "strong_typedef<unsigned>|binary-operator|operand-modified", "operand changed");
  {
    suint v{static_cast<unsigned>(a)};
    suint &r = ++v;
    C17_CHECK(&r == &v && v.get() == ((a + 1) & m), "strong_typedef<unsigned>|pre-increment|value", "++a");
    suint const old = v--;
    C17_CHECK(old.get() == ((a + 1) & m) && v.get() == a, "strong_typedef<unsigned>|post-decrement|value", "a--");
    suint &r2 = --v;
    C17_CHECK(&r2 == &v && v.get() == ((a + m) & m), "strong_typedef<unsigned>|pre-decrement|value", "--a");
    suint const old2 = v++;
    C17_CHECK(old2.get() == ((a + m) & m) && v.get() == a, "strong_typedef<unsigned>|post-increment|value", "a++");
  }
  if (a == b)
  {
    C17_CHECK(fcppt::strong_typedef_hash<suint>{}(sx) == fcppt::strong_typedef_hash<suint>{}(sy), "strong_typedef<unsigned>|strong_typedef_hash|equal-values-different-hash", "strong_typedef_hash");
    C17_CHECK(std::hash<suint>{}(sx) == std::hash<suint>{}(sy), "strong_typedef<unsigned>|std::hash|equal-values-different-hash", "std::hash");
  }
  // a 64-bit strong typedef over the same operands: no wrap-around, plain 64-bit oracle
  {
    s64 const lx{static_cast<std::int64_t>(a)}, ly{static_cast<std::int64_t>(b)};
    C17_CHECK((lx + ly).get() == static_cast<i64>(a + b) && (lx - ly).get() == static_cast<i64>(a) - static_cast<i64>(b) && (-lx).get() == -static_cast<i64>(a),
              "strong_typedef<int64>|arithmetic|value", "64-bit + - unary-");
    C17_CHECK((lx < ly) == (a < b) && (lx == ly) == (a == b), "strong_typedef<int64>|comparison|value", "64-bit < ==");
  }
}

Reg const r_suint_pairs{
    "strong_typedef_unsigned_pairs", Kind::exhaustive,
    "all pairs of wrap-around boundary values of unsigned (within 2 of 0, 2^7, 2^8, 2^15, 2^16, 2^30, 2^31, 3*2^30, 2^32 and bit patterns) for + - * unary- ++ -- & | ^ ~, comparisons, assigning operators, hashes; non-trivial when the exact result of +, - or * leaves [0,2^32), an operand is 0 or the operands are equal",
    [] {
      std::vector<std::uint32_t> const full = lattice<std::uint32_t>();
      std::vector<std::uint32_t> const &vals = opts().thorough() ? full : uvalues();
      for (std::uint32_t a : vals)
        for (std::uint32_t b : vals)
        {
          cur2(a, b);
          suint_pair(a, b);
        }
    },
    [](Ints const &c) { suint_pair(c.at(0), c.at(1)); },
    [](Ints const &c) { return "strong_typedef<unsigned> operands " + std::to_string(c.at(0) & 0xffffffffLL) + ", " + std::to_string(c.at(1) & 0xffffffffLL); }};

Reg const r_suint_random{
    "strong_typedef_unsigned_random", Kind::random,
    "seeded pairs of 32-bit values biased towards powers of two, small values and bit patterns, same checks as strong_typedef_unsigned_pairs; non-trivial when the exact result of +, - or * leaves [0,2^32), an operand is 0 or the operands are equal",
    [] {
      SplitMix r(opts().seed * 911 + static_cast<u64>(opts().shard));
      u64 const n = opts().thorough() ? 3000000 : 300000;
      auto pick = [&r]() -> u64 {
        u64 const x = r.next();
        switch (x & 7U)
        {
        case 0: return r.next() & 0xffffffffULL;
        case 1: return (1ULL << (r.next() % 32)) + (r.next() % 5) - 2;
        case 2: return ~((1ULL << (r.next() % 32)) + (r.next() % 5) - 2);
        case 3: return r.next() % 70000;
        case 4: return 0xffffffffULL - r.next() % 70000;
        case 5: return (r.next() & 0xffffffffULL) >> (r.next() % 32);
        case 6: return r.next() % 3;
        default: return (r.next() & 0xffffffffULL) | 0x80000000ULL;
        }
      };
      for (u64 i = 0; i < n; ++i)
      {
        i64 const a = static_cast<i64>(pick() & 0xffffffffULL);
        i64 const b = r.next() % 8 == 0 ? a : static_cast<i64>(pick() & 0xffffffffULL);
        cur2(a, b);
        suint_pair(a, b);
      }
    },
    [](Ints const &c) { suint_pair(c.at(0), c.at(1)); },
    [](Ints const &c) { return "strong_typedef<unsigned> operands " + std::to_string(c.at(0) & 0xffffffffLL) + ", " + std::to_string(c.at(1) & 0xffffffffLL); }};

// ------------------------------------------------------------------ object wrappers expose exactly the wrapped object
struct base_t
{
  int v;
  virtual ~base_t() = default;
};
struct derived_t : base_t
{
  int w;
};

struct rnode
{
  int v;
  std::vector<fcppt::recursive<rnode>> children;
};
bool rnode_eq(rnode const &l, rnode const &r)
{
  if (l.v != r.v || l.children.size() != r.children.size()) return false;
  for (std::size_t i = 0; i < l.children.size(); ++i)
    if (!rnode_eq(l.children[i].get(), r.children[i].get())) return false;
  return true;
}

struct mi_second
{
  int second;
  virtual ~mi_second() = default;
};
struct mi_derived : base_t, mi_second
{
};

void wrappers(i64 a, i64 b)
{
  count(a == b);
  int const x = static_cast<int>(a), y = static_cast<int>(b);
  // reference: address identity, assignment through the reference reaches the object
  {
    int o1 = x, o2 = y;
    fcppt::reference<int> const r1 = fcppt::make_ref(o1), r2{o2};
    C17_CHECK(&r1.get() == &o1 && &r2.get() == &o2 && r1.get() == a && r2.get() == b, "reference|get|address-identity", "make_ref/get");
    r1.get() = y;
    C17_CHECK(o1 == b, "reference|get|writes-reach-object", "write through reference");
    fcppt::reference<int const> const c1 = fcppt::make_cref(o1), c2 = fcppt::reference_to_const(r2);
    C17_CHECK(&c1.get() == &o1 && &c2.get() == &o2, "reference|make_cref/reference_to_const|address-identity", "const references");
    fcppt::reference<int> copy = r1;
    copy = r2;
    C17_CHECK(&copy.get() == &o2 && &r1.get() == &o1, "reference|assignment|rebinds-not-writes", "reference assignment");
    C17_CHECK(o1 == b && o2 == b, "reference|assignment|objects-untouched", "reference assignment changed an object");
    // equal values at different addresses are different references; hash follows the address
    C17_CHECK(!(r1 == r2) && (r1 != r2) && (copy == r2) && !(copy != r2), "reference|operator==|address-identity", "reference ==");
    C17_CHECK(std::hash<fcppt::reference<int>>{}(copy) == std::hash<fcppt::reference<int>>{}(r2) && fcppt::reference_hash<fcppt::reference<int>>{}(copy) == fcppt::reference_hash<fcppt::reference<int>>{}(r2),
              "reference|hash|equal-values-different-hash", "reference hash");
    derived_t d;
    d.v = x;
    d.w = y;
    fcppt::reference<base_t> const rb = fcppt::reference_to_base<base_t>(fcppt::make_ref(d));
    C17_CHECK(&rb.get() == static_cast<base_t *>(&d) && rb.get().v == a, "reference_to_base|address-identity", "reference_to_base");
  }
  // recursive: owns a copy; copies are deep; get() is stable
  {
    fcppt::recursive<int> r1{x};
    fcppt::recursive<int> r2{r1};
    C17_CHECK(r1.get() == a && r2.get() == a && &r1.get() != &r2.get(), "recursive|copy|deep", "recursive copy");
    r2.get() = y;
    C17_CHECK(r1.get() == a && r2.get() == b, "recursive|copy|independent", "recursive copy not independent");
    C17_CHECK((r1 == r2) == (a == b) && (r1 != r2) == (a != b), "recursive|operator==|value", "recursive ==");
    int const *const p = &r2.get();
    fcppt::recursive<int> r3{std::move(r2)};
    C17_CHECK(&r3.get() == p && r3.get() == b, "recursive|move|same-object", "recursive move");
    r1 = r3;
    C17_CHECK(r1.get() == b && &r1.get() != &r3.get() && (r1 == r3), "recursive|copy-assignment|value", "recursive assignment");
    fcppt::recursive<int> const &cr = r1;
    C17_CHECK(&cr.get() == &r1.get(), "recursive|get|const-and-non-const-agree", "recursive get");
    // self copy-assignment keeps the value; a moved-from object can be assigned to again (the
    // usual contract of a moved-from object: assignable and destructible) and then holds a copy
    fcppt::recursive<int> &alias = r1;
    r1 = alias;
    C17_CHECK(r1.get() == b, "recursive|copy-assignment|self", "recursive self-assignment");
    r2 = r3; // r2 was moved from above
    C17_CHECK(r2.get() == b && &r2.get() != &r3.get(), "recursive|copy-assignment|into-moved-from", "copy-assignment into a moved-from recursive");
    fcppt::recursive<int> r4{x};
    fcppt::recursive<int> r5{std::move(r4)};
    r4 = std::move(r5);
    C17_CHECK(r4.get() == a, "recursive|move-assignment|into-moved-from", "move-assignment into a moved-from recursive");
  }
  // recursive used for what it is for: a recursive data structure. Replacing a node by (a copy
  // of) one of its own children - the source lives inside the target - yields exactly that child
  {
    rnode leaf1{x, {}}, leaf2{y, {}};
    rnode inner{x + 10, {fcppt::recursive<rnode>{leaf1}, fcppt::recursive<rnode>{leaf2}}};
    rnode root{y + 20, {fcppt::recursive<rnode>{inner}, fcppt::recursive<rnode>{leaf2}}};
    fcppt::recursive<rnode> r{root};
    C17_CHECK(rnode_eq(r.get(), root) && rnode_eq(root.children[0].get(), inner), "recursive|nested|deep-copy", "nested recursive copy");
    r = r.get().children[0]; // copy-assignment from a sub-object of the target
    C17_CHECK(rnode_eq(r.get(), inner), "recursive|copy-assignment|from-own-child", "recursive assigned from its own child is not that child");
    r = fcppt::recursive<rnode>{r.get().children[1]}; // move-assignment from a copy of a grandchild
    C17_CHECK(rnode_eq(r.get(), leaf2), "recursive|move-assignment|from-copy-of-own-child", "recursive move-assigned from a copy of its own child");
  }
  // unique_ptr: exposes exactly the object it was made for; moves keep the address
  {
    fcppt::unique_ptr<int> p1 = fcppt::make_unique_ptr<int>(x);
    int *const addr = p1.get_pointer();
    C17_CHECK(*p1 == a && &*p1 == addr && p1.operator->() == addr, "unique_ptr|dereference|address-identity", "unique_ptr deref");
    *p1 = y;
    fcppt::unique_ptr<int> p2{std::move(p1)};
    C17_CHECK(p2.get_pointer() == addr && *p2 == b, "unique_ptr|move|same-object", "unique_ptr move");
    fcppt::unique_ptr<int const> pc = fcppt::unique_ptr_to_const(std::move(p2));
    C17_CHECK(pc.get_pointer() == addr && *pc == b, "unique_ptr_to_const|same-object", "unique_ptr_to_const");
    fcppt::unique_ptr<derived_t> pd = fcppt::make_unique_ptr<derived_t>();
    pd->v = x;
    derived_t *const daddr = pd.get_pointer();
    fcppt::unique_ptr<base_t> pb = fcppt::unique_ptr_to_base<base_t>(std::move(pd));
    C17_CHECK(pb.get_pointer() == static_cast<base_t *>(daddr) && pb->v == a, "unique_ptr_to_base|same-object", "unique_ptr_to_base");
    int *const raw = fcppt::make_unique_ptr<int>(x).release_ownership();
    C17_CHECK(*raw == a, "unique_ptr|release_ownership|value", "release_ownership");
    delete raw;
  }
  // shared_ptr: copies share the object; == is pointer identity; equal values in different objects differ
  {
    fcppt::shared_ptr<int> const s1 = fcppt::make_shared_ptr<int>(x), s2 = fcppt::make_shared_ptr<int>(y);
    fcppt::shared_ptr<int> const s3 = s1;
    C17_CHECK(*s1 == a && *s2 == b && s3.get_pointer() == s1.get_pointer() && &*s3 == s1.get_pointer() && s1.operator->() == s1.get_pointer(), "shared_ptr|dereference|address-identity", "shared_ptr deref");
    *s3 = y;
    C17_CHECK(*s1 == b, "shared_ptr|copy|shares-object", "shared_ptr copy");
    C17_CHECK((s1 == s3) && !(s1 != s3) && !(s1 == s2) && (s1 != s2), "shared_ptr|operator==|address-identity", "shared_ptr ==");
    C17_CHECK((s1 < s2) == std::less<int *>{}(s1.get_pointer(), s2.get_pointer()) && !(s1 < s3) && !(s3 < s1), "shared_ptr|operator<|std::less-on-pointers", "shared_ptr <");
    C17_CHECK(std::hash<fcppt::shared_ptr<int>>{}(s1) == std::hash<fcppt::shared_ptr<int>>{}(s3) && fcppt::shared_ptr_hash<fcppt::shared_ptr<int>>{}(s1) == fcppt::shared_ptr_hash<fcppt::shared_ptr<int>>{}(s3),
              "shared_ptr|hash|equal-values-different-hash", "shared_ptr hash");
    fcppt::unique_ptr<int> u = fcppt::make_unique_ptr<int>(x);
    int *const uaddr = u.get_pointer();
    fcppt::shared_ptr<int> const s4{std::move(u)};
    C17_CHECK(s4.get_pointer() == uaddr && *s4 == a && s4.use_count() == 1 && s1.use_count() == 2, "shared_ptr|from-unique_ptr|same-object", "shared_ptr from unique_ptr");
  }
  // shared_ptrs of DIFFERENT static types to one object under multiple inheritance: the conversion
  // to the second base shifts the address; == / != compare the pointers after the usual pointer
  // conversion, i.e. they say "same object" (like std::shared_ptr and like raw pointers)
  {
    fcppt::shared_ptr<mi_derived> const d = fcppt::make_shared_ptr<mi_derived>();
    d->v = x;
    d->second = y;
    fcppt::shared_ptr<mi_second> const b2{d};
    fcppt::shared_ptr<base_t> const b1{d};
    fcppt::shared_ptr<mi_derived> const other = fcppt::make_shared_ptr<mi_derived>();
    C17_CHECK(b2.get_pointer() == static_cast<mi_second *>(d.get_pointer()) && b2->second == b && b1->v == a, "shared_ptr|converting-copy|same-object", "shared_ptr converted to a base");
    C17_CHECK((b2 == d) && (d == b2) && !(b2 != d) && !(d != b2), "shared_ptr|operator==|second-base-of-the-same-object", "shared_ptr<second base> and shared_ptr<derived> to the same object compare unequal");
    C17_CHECK((b1 == d) && !(b1 != d), "shared_ptr|operator==|first-base-of-the-same-object", "shared_ptr<first base> vs shared_ptr<derived>");
    C17_CHECK(!(b2 == other) && (b2 != other), "shared_ptr|operator==|second-base-of-another-object", "shared_ptr<second base> equals a shared_ptr to another object");
  }
  // unit: a single value
  C17_CHECK((fcppt::unit{} == fcppt::unit{}) && !(fcppt::unit{} != fcppt::unit{}), "unit|operator==|single-value", "unit ==");
}
Reg const r_wrappers{
    "object_wrappers", Kind::exhaustive,
    "reference, recursive, unique_ptr, shared_ptr, unit with payload values (a,b) in {0,1,2}^2: address identity, deep copy / sharing, ==, <, hash; non-trivial when both payloads are equal (equal values in different objects)",
    [] {
      for (i64 a = 0; a < 3; ++a)
        for (i64 b = 0; b < 3; ++b)
        {
          cur2(a, b);
          wrappers(a, b);
        }
    },
    [](Ints const &c) { wrappers(c.at(0) % 3, c.at(1) % 3); },
    [](Ints const &c) { return "wrappers with payloads " + std::to_string(c.at(0)) + ", " + std::to_string(c.at(1)); }};
}
