// VERIF: quick_shards=2
// C05 - generic operations conserve values: fcppt::optional combinators.
// Shapes: present / absent (per optional), for ranges of optionals a list of presence patterns.
// Not instantiated (rejected at compile time, so there is no failing input): optional::to_container
// with a const lvalue optional, optional::assign with an lvalue value.
#include "c05_common.hpp"

#include <fcppt/reference.hpp>
#include <fcppt/optional/alternative.hpp>
#include <fcppt/optional/apply.hpp>
#include <fcppt/optional/assign.hpp>
#include <fcppt/optional/bind.hpp>
#include <fcppt/optional/cat.hpp>
#include <fcppt/optional/combine.hpp>
#include <fcppt/optional/copy_value.hpp>
#include <fcppt/optional/filter.hpp>
#include <fcppt/optional/from.hpp>
#include <fcppt/optional/join.hpp>
#include <fcppt/optional/make.hpp>
#include <fcppt/optional/map.hpp>
#include <fcppt/optional/maybe.hpp>
#include <fcppt/optional/maybe_void.hpp>
#include <fcppt/optional/object.hpp>
#include <fcppt/optional/reference.hpp>
#include <fcppt/optional/sequence.hpp>
#include <fcppt/optional/to_container.hpp>

#include <utility>
#include <vector>

using namespace c05;

namespace
{
using vec = std::vector<tracked>;
using opt = fcppt::optional::object<tracked>;
using opt_opt = fcppt::optional::object<opt>;
using opt_vec = std::vector<opt>;

opt make_opt(bool present, int origin) { return present ? opt{tracked(origin)} : opt{}; }

struct bind_conv
{
  bool keep;
  template <typename T>
  opt operator()(T &&x) const
  {
    if (!keep)
    {
      (void)x.value();
      return opt{};
    }
    return opt{conv{}(std::forward<T>(x))};
  }
};
struct gen_opt
{
  opt operator()() const { return opt{gen{}()}; }
};
struct absorb_fn
{
  template <typename T>
  void operator()(T &&x) const { absorb(std::forward<T>(x)); }
};
struct nothing_fn
{
  void operator()() const {}
};

std::vector<std::vector<int>> const &patterns()
{
  // presence pattern of a range of optionals
  static std::vector<std::vector<int>> const p{{}, {1}, {0}, {1, 0, 1}, {1, 1, 1}, {0, 0}, {0, 1, 1, 1}, {1, 1, 1, 1, 1}};
  return p;
}
int pattern_shapes() { return 8; }
opt_vec make_opts(std::vector<int> const &p)
{
  opt_vec v;
  v.reserve(p.size());
  for (std::size_t i = 0; i < p.size(); ++i) v.push_back(make_opt(p[i] != 0, static_cast<int>(i)));
  return v;
}
std::vector<int> present_origins(std::vector<int> const &p)
{
  std::vector<int> r;
  for (std::size_t i = 0; i < p.size(); ++i)
    if (p[i]) r.push_back(static_cast<int>(i));
  return r;
}

Family const &optional_family()
{
  static Family const f = [] {
    Family r;
    // ---- map: "If _source is set to x, make(_function(x)) is returned"
    r.push_back(entry1("optional::map", 2, any_cat{}, [](Ctx &cx, int shape, auto c) {
      using C = decltype(c);
      opt o = make_opt(shape == 1, 0);
      cx.arg<C>(o);
      cx.begin();
      opt res = fcppt::optional::map(pass<C>(o), conv{});
      cx.end();
      cx.result(res, shape == 1 ? std::vector<int>{fwd<C>(0)} : std::vector<int>{});
    }));
    // ---- bind: shapes absent / present -> nothing / present -> value
    r.push_back(entry1("optional::bind", 3, any_cat{}, [](Ctx &cx, int shape, auto c) {
      using C = decltype(c);
      opt o = make_opt(shape >= 1, 0);
      cx.arg<C>(o);
      cx.begin();
      opt res = fcppt::optional::bind(pass<C>(o), bind_conv{shape == 2});
      cx.end();
      cx.result(res, shape == 2 ? std::vector<int>{fwd<C>(0)} : std::vector<int>{});
    }));
    // ---- join: shapes nothing / some(nothing) / some(some)
    r.push_back(entry1("optional::join", 3, any_cat{}, [](Ctx &cx, int shape, auto c) {
      using C = decltype(c);
      opt_opt o = shape == 0 ? opt_opt{} : opt_opt{make_opt(shape == 2, 0)};
      cx.arg<C>(o);
      cx.begin();
      opt res = fcppt::optional::join(pass<C>(o));
      cx.end();
      cx.result(res, shape == 2 ? std::vector<int>{0} : std::vector<int>{});
    }));
    // ---- apply (two and three optionals)
    r.push_back(entry2("optional::apply", 4, any_cat{}, any_cat{}, [](Ctx &cx, int shape, auto c1, auto c2) {
      using C1 = decltype(c1);
      using C2 = decltype(c2);
      opt a = make_opt((shape & 1) != 0, 0), b = make_opt((shape & 2) != 0, 1);
      cx.arg<C1>(a, "first");
      cx.arg<C2>(b, "second");
      cx.begin();
      opt res = fcppt::optional::apply(conv2{}, pass<C1>(a), pass<C2>(b));
      cx.end();
      cx.result_and_sink(res, shape == 3 ? std::vector<int>{fwd<C1>(0), fwd<C2>(1)} : std::vector<int>{});
    }));
    r.push_back(entry3("optional::apply(3)", 8, any_cat{}, rv_lv{}, rv_clv{}, [](Ctx &cx, int shape, auto c1, auto c2, auto c3) {
      using C1 = decltype(c1);
      using C2 = decltype(c2);
      using C3 = decltype(c3);
      opt a = make_opt((shape & 1) != 0, 0), b = make_opt((shape & 2) != 0, 1), d = make_opt((shape & 4) != 0, 2);
      cx.arg<C1>(a, "first");
      cx.arg<C2>(b, "second");
      cx.arg<C3>(d, "third");
      cx.key_fn = "optional::apply";
      cx.begin();
      opt res = fcppt::optional::apply(conv3{}, pass<C1>(a), pass<C2>(b), pass<C3>(d));
      cx.end();
      cx.result_and_sink(res, shape == 7 ? std::vector<int>{fwd<C1>(0), fwd<C2>(1), fwd<C3>(2)} : std::vector<int>{});
    }));
    // ---- from: the value or the default
    r.push_back(entry1("optional::from", 2, any_cat{}, [](Ctx &cx, int shape, auto c) {
      using C = decltype(c);
      opt o = make_opt(shape == 1, 0);
      cx.arg<C>(o);
      cx.begin();
      tracked res = fcppt::optional::from(pass<C>(o), gen{});
      cx.end();
      cx.result(res, {shape == 1 ? 0 : gen_base});
    }));
    // ---- maybe / maybe_void
    r.push_back(entry1("optional::maybe", 2, any_cat{}, [](Ctx &cx, int shape, auto c) {
      using C = decltype(c);
      opt o = make_opt(shape == 1, 0);
      cx.arg<C>(o);
      cx.begin();
      tracked res = fcppt::optional::maybe(pass<C>(o), gen{}, conv{});
      cx.end();
      cx.result(res, {shape == 1 ? fwd<C>(0) : gen_base});
    }));
    r.push_back(entry1("optional::maybe_void", 2, any_cat{}, [](Ctx &cx, int shape, auto c) {
      using C = decltype(c);
      opt o = make_opt(shape == 1, 0);
      cx.arg<C>(o);
      cx.begin();
      fcppt::optional::maybe_void(pass<C>(o), absorb_fn{});
      cx.end();
      cx.sink_only(shape == 1 ? std::vector<int>{fwd<C>(0)} : std::vector<int>{});
    }));
    // ---- combine
    r.push_back(entry2("optional::combine", 4, any_cat{}, any_cat{}, [](Ctx &cx, int shape, auto c1, auto c2) {
      using C1 = decltype(c1);
      using C2 = decltype(c2);
      opt a = make_opt((shape & 1) != 0, 0), b = make_opt((shape & 2) != 0, 1);
      cx.arg<C1>(a, "first");
      cx.arg<C2>(b, "second");
      cx.begin();
      opt res = fcppt::optional::combine(pass<C1>(a), pass<C2>(b), conv2{});
      cx.end();
      cx.result_and_sink(res, shape == 3   ? std::vector<int>{fwd<C1>(0), fwd<C2>(1)}
                              : shape == 1 ? std::vector<int>{0}
                              : shape == 2 ? std::vector<int>{1}
                                           : std::vector<int>{});
    }));
    // ---- alternative
    r.push_back(entry1("optional::alternative", 2, any_cat{}, [](Ctx &cx, int shape, auto c) {
      using C = decltype(c);
      opt o = make_opt(shape == 1, 0);
      cx.arg<C>(o);
      cx.begin();
      opt res = fcppt::optional::alternative(pass<C>(o), gen_opt{});
      cx.end();
      cx.result(res, {shape == 1 ? 0 : gen_base});
    }));
    // ---- filter: absent / present+rejected / present+accepted
    r.push_back(entry1("optional::filter", 3, any_cat{}, [](Ctx &cx, int shape, auto c) {
      using C = decltype(c);
      opt o = make_opt(shape >= 1, 0);
      cx.arg<C>(o);
      cx.begin();
      opt res = fcppt::optional::filter(pass<C>(o), pred{shape == 2 ? 1U : 0U});
      cx.end();
      cx.result(res, shape == 2 ? std::vector<int>{0} : std::vector<int>{});
    }));
    // ---- filter with a predicate that takes its argument BY VALUE (a callable shape the concept
    // admits), rvalue optional. The one copy of the element into the predicate's parameter is what
    // the caller asked for - filter has to keep the element in order to return it - so exactly that
    // copy is taken out of the log; what is demanded: the accepted element comes back alive (not a
    // moved-from shell) and nothing is read or moved after having been moved from.
    r.push_back(entry1("optional::filter (by-value predicate)", 3, only_rv{}, [](Ctx &cx, int shape, auto c) {
      using C = decltype(c);
      opt o = make_opt(shape >= 1, 0);
      cx.arg<C>(o);
      cx.begin();
      opt res = fcppt::optional::filter(pass<C>(o), pred_by_value{shape == 2 ? 1U : 0U});
      cx.end();
      auto &ev = lg().events;
      for (auto it = ev.begin(); it != ev.end(); ++it)
        if (it->kind == Ev::copy_ctor && it->origin == 0 && it->src_state == st_alive)
        {
          ev.erase(it);
          break;
        }
      cx.result(res, shape == 2 ? std::vector<int>{0} : std::vector<int>{});
    }));
    // ---- cat: "if e is set to x, then x is inserted into the target container"
    r.push_back(entry1("optional::cat", -2, any_cat{}, [](Ctx &cx, int shape, auto c) {
      using C = decltype(c);
      std::vector<int> const &p = patterns()[static_cast<std::size_t>(shape)];
      opt_vec v = make_opts(p);
      cx.arg<C>(v);
      cx.begin();
      vec res = fcppt::optional::cat<vec>(pass<C>(v));
      cx.end();
      cx.result(res, present_origins(p));
    }));
    // ---- sequence: all present -> the container of all values, otherwise nothing
    r.push_back(entry1("optional::sequence", -2, any_cat{}, [](Ctx &cx, int shape, auto c) {
      using C = decltype(c);
      std::vector<int> const &p = patterns()[static_cast<std::size_t>(shape)];
      opt_vec v = make_opts(p);
      cx.arg<C>(v);
      cx.begin();
      fcppt::optional::object<vec> res = fcppt::optional::sequence<vec>(pass<C>(v));
      cx.end();
      bool const all = present_origins(p).size() == p.size();
      if (res.has_value() != all)
        fail(cx.key("has-value"), cx.where() + "result " + (res.has_value() ? "has a value" : "is nothing"));
      cx.result(res, all ? present_origins(p) : std::vector<int>{});
    }));
    // ---- to_container: "If _source holds x, then Container{x} is returned"
    r.push_back(entry1("optional::to_container", 2, rv_lv{}, [](Ctx &cx, int shape, auto c) {
      using C = decltype(c);
      opt o = make_opt(shape == 1, 0);
      cx.arg<C>(o);
      cx.begin();
      vec res = fcppt::optional::to_container<vec>(pass<C>(o));
      cx.end();
      cx.result(res, shape == 1 ? std::vector<int>{0} : std::vector<int>{});
    }));
    // ---- copy_value: copies the referent of an optional reference
    r.push_back(entry1("optional::copy_value", 2, any_cat{}, [](Ctx &cx, int shape, auto c) {
      using C = decltype(c);
      tracked t(0);
      fcppt::optional::reference<tracked> o = shape == 1 ? fcppt::optional::reference<tracked>{fcppt::reference<tracked>{t}} : fcppt::optional::reference<tracked>{};
      cx.arg<lv>(t, "referent");
      if (shape == 0) cx.elements = 0;
      cx.klass_override(std::string(cat_name(C::id)) + "-optional-reference");
      cx.begin();
      opt res = fcppt::optional::copy_value(pass<C>(o));
      cx.end();
      cx.result(res, shape == 1 ? std::vector<int>{0} : std::vector<int>{});
    }));
    // ---- assign: the value goes into the optional, a reference to it is returned
    r.push_back(entry0("optional::assign", 2, [](Ctx &cx, int shape) {
      opt o = make_opt(shape == 1, 0);
      tracked t(5);
      cx.arg_mutated(o, "optional");
      cx.arg<rv>(t, "value");
      cx.begin();
      tracked &res = fcppt::optional::assign(o, std::move(t));
      cx.end();
      cx.expect_state(o, {5}, "optional");
      if (!o.has_value() || &res != &o.get_unsafe())
        fail(cx.key("return-value"), cx.where() + "the returned reference is not the optional's content");
    }));
    // ---- make
    r.push_back(entry1("optional::make", 1, any_cat{}, [](Ctx &cx, int, auto c) {
      using C = decltype(c);
      tracked t(0);
      cx.arg<C>(t, "value");
      cx.begin();
      opt res = fcppt::optional::make(pass<C>(t));
      cx.end();
      cx.result(res, {0});
    }));
    return r;
  }();
  return f;
}

C05_SECTION(r_optional, "optional", optional_family);
}
