// VERIF: lib rc flavour=tsan stall=120 quick_shards=1 thorough_shards=4
// C19 (concurrent part) - several threads call context::set / context::get and create and query
// log objects on ONE context; there must be no data race and every observed level must be one that
// some sequential ordering of the calls would produce. Built with g++ -fsanitize=thread.
//
// Case: frame 0 = (thread count 2..6, root level); every further frame is one operation
// (thread, opcode, location / own-object index, level / name, delay plan). A thread runs at most
// 12 operations. All threads are released together by a spin barrier and run their history against
// one fresh context; the whole case is repeated 20x (quick) / 200x (thorough), each repetition with
// a fresh context, because the interleaving is chosen by the OS scheduler.
// Locations have depth <= 3 over a pool of 4 names per depth (84 nodes), more than the <= 72
// operations can materialise early: nodes keep being created while other threads traverse.
// The delay plan of an operation says, per FCPPT_VERIF_SCHED_POINT site and occurrence inside that
// operation, whether the calling thread goes on, yields or spins for about 1 / 5 microseconds
// (hooks/c19_sched_point.diff; on a tree without the hook the function below is never called).
//
// Oracles
//  (a) ThreadSanitizer: the driver runs with halt_on_error=1:abort_on_error=1; a report kills the
//      process and the driver reports the current case. Log objects are thread-private ("sharing a
//      log object between different threads is not safe"), nothing is written to the sinks (an
//      ostringstream shared by two loggers is the caller's race, not fcppt's).
//  (b) Every set / get is stamped at invocation and at response with fetch_add on ONE relaxed
//      atomic counter. Relaxed, so that the stamps add no happens-before edge that could hide a
//      race from TSan. The set/get history - plus, once all threads are joined, a get of every
//      location used and a level() of every log object, stamped after everything else - must be
//      linearizable against the sequential model of the sequential part (level(loc) = value of the
//      latest set on a prefix, else the root level). Wing-Gong search with memoisation.
//      Soundness of the stamps: the context serialises set/get by a mutex. If A's critical section
//      precedes B's, then A's invocation stamp happens-before B's response stamp (program order,
//      mutex order, program order), and by write-write coherence of the single counter it is also
//      smaller. So "A.resp < B.inv" can only be observed when A's critical section precedes B's,
//      and the mutex order is a witness linearization of every history a correct context produces.
//  (c) object::level() / enabled() are unlocked atomic reads of one node, so they are not part of
//      (b). Each one, read R of the object at location L, must return the value of a set S on a
//      prefix of L that had begun before R ended (S.inv < R.resp) and is not definitely overwritten
//      before R began (no set S' on a prefix of L with S.resp < S'.inv and S'.resp < R.inv), or the
//      root level if no set on a prefix of L had ended before R began. enabled(m) must be the
//      decision for one of these values.
//      Reading / assumption: this uses the stamps as real time. On x86-64 a relaxed fetch_add is a
//      lock-prefixed instruction (a full barrier), so the library's seq_cst node accesses cannot
//      move across the stamps; on other architectures only "some set on a prefix wrote it, or the
//      root level" is demanded.
// A violation of (b) or (c) is re-run up to 50 more times and reported with the recorded history.
#include "verif.hpp"

#include <fcppt/make_ref.hpp>
#include <fcppt/string.hpp>
#include <fcppt/enum/array_impl.hpp>
#include <fcppt/enum/array_init.hpp>
#include <fcppt/log/context.hpp>
#include <fcppt/log/level.hpp>
#include <fcppt/log/level_stream.hpp>
#include <fcppt/log/level_stream_array.hpp>
#include <fcppt/log/location.hpp>
#include <fcppt/log/name.hpp>
#include <fcppt/log/object.hpp>
#include <fcppt/log/optional_level.hpp>
#include <fcppt/log/parameters.hpp>
#include <fcppt/log/format/optional_function.hpp>
#include <fcppt/optional/object.hpp>

#include <sys/syscall.h>
#include <unistd.h>

#include <algorithm>
#include <array>
#include <atomic>
#include <csignal>
#include <bitset>
#include <map>
#include <memory>
#include <set>
#include <sstream>
#include <string>
#include <thread>
#include <vector>

using namespace verif;

// ------------------------------------------------------------------------------ scheduling hook
namespace
{
constexpr int n_sites = 8;
struct Plan
{
  std::uint32_t bits{0};
  unsigned occ[n_sites]{};
};
thread_local Plan t_plan;
inline void spin(unsigned n)
{
  for (unsigned i = 0; i < n; ++i) __asm__ __volatile__("" ::: "memory");
}
}
// Called by fcppt.log at every FCPPT_VERIF_SCHED_POINT(site) when the hook is in the tree.
// 2 bits per (site, occurrence within the current operation): 0,1 go on; 2 yield; 3 spin.
extern "C" void fcppt_verif_sched_point(int site)
{
  if (t_plan.bits == 0 || site < 0 || site >= n_sites) return;
  unsigned const k = t_plan.occ[site]++;
  unsigned const field = (static_cast<unsigned>(site) * 5U + k) % 16U;
  switch ((t_plan.bits >> (2U * field)) & 3U)
  {
  case 2: std::this_thread::yield(); break;
  case 3: spin((k & 1U) ? 2500U : 500U); break; // about 5 / 1 microseconds under TSan
  default: break;
  }
}

namespace
{
namespace flog = fcppt::log;
using Loc = std::vector<int>;

constexpr int n_levels = 6;
constexpr int lv_nothing = 6;
constexpr flog::level level_values[n_levels] = {flog::level::verbose, flog::level::debug, flog::level::info,
                                                flog::level::warning, flog::level::error, flog::level::fatal};
char const *const level_names[n_levels + 1] = {"verbose", "debug", "info", "warning", "error", "fatal", "nothing"};
constexpr int pool = 4;
char const *const names[pool] = {"n0", "n1", "n12", "n3"}; // n1 is a proper prefix of its sibling n12
// name choice is skewed so that threads meet below the same parents
constexpr int name_table[8] = {0, 0, 0, 1, 1, 1, 2, 3};

flog::optional_level to_opt(int v) { return v == lv_nothing ? flog::optional_level{} : flog::optional_level{level_values[v]}; }
int from_opt(flog::optional_level const &o)
{
  if (!o.has_value()) return lv_nothing;
  for (int i = 0; i < n_levels; ++i)
    if (level_values[i] == o.get_unsafe()) return i;
  return -1;
}
flog::location to_location(Loc const &l)
{
  flog::location r;
  for (int n : l) r /= flog::name{fcppt::string{names[n]}};
  return r;
}
std::string show(Loc const &l)
{
  std::string r = "{";
  for (std::size_t d = 0; d < l.size(); ++d) r += std::string(d ? "," : "") + names[l[d]];
  return r + "}";
}
bool is_prefix(Loc const &p, Loc const &l)
{
  return p.size() <= l.size() && std::equal(p.begin(), p.end(), l.begin());
}
Loc decode_loc(u64 w, std::size_t max_depth)
{
  std::size_t const d = static_cast<std::size_t>(w % (max_depth + 1));
  Loc l;
  u64 x = w / 4;
  for (std::size_t i = 0; i < d; ++i)
  {
    l.push_back(name_table[x % 8]);
    x /= 8;
  }
  return l;
}
bool model_enabled(int loc_level, int msg) { return loc_level != lv_nothing && msg >= loc_level; }

// ----------------------------------------------------------------------------------- the case
enum Op
{
  op_set, op_get, op_obj_ctx, op_obj_loc, op_obj_parent, op_observe, n_ops
};
char const *const op_names[n_ops] = {"set", "get", "object(ctx)", "object(ctx,loc)", "object(parent)", "observe"};
constexpr unsigned op_table[] = {op_set, op_set, op_set, op_set, op_get, op_get, op_get, op_obj_ctx, op_obj_loc, op_obj_loc,
                                 op_obj_loc, op_obj_parent, op_obj_parent, op_observe, op_observe, op_observe};
constexpr unsigned n_choices = sizeof(op_table) / sizeof(op_table[0]);
constexpr std::size_t max_thread_ops = 12;

struct COp
{
  Op op;
  Loc loc; // set/get: the location; object ops: the location of the new object (filled when decoded)
  Loc ctor_loc; // object(ctx,loc): the location argument
  int name{0}; // object ops: the name index
  int value{0}; // set: level; observe: message level
  std::size_t obj{0}; // observe / object(parent): index among the thread's own objects
  std::uint32_t plan{0};
  bool skip{false}; // operand not available (no own object yet / too deep)
};
struct Case
{
  int nthreads{2};
  int root{0};
  std::vector<std::vector<COp>> threads;
};

Case decode(Ints const &c)
{
  Choices ch(c);
  Case k;
  k.nthreads = 2 + static_cast<int>(ch.index(5));
  k.root = static_cast<int>(ch.range(0, 6));
  ch.skip_to_frame();
  k.threads.resize(static_cast<std::size_t>(k.nthreads));
  std::vector<std::vector<Loc>> objs(static_cast<std::size_t>(k.nthreads));
  std::size_t const nframes = c.size() / 4;
  for (std::size_t i = 1; i < nframes; ++i)
  {
    u64 const w0 = ch.raw(), x = ch.raw(), y = ch.raw(), z = ch.raw();
    ch.skip_to_frame();
    std::size_t const t = static_cast<std::size_t>(w0 % static_cast<u64>(k.nthreads));
    if (k.threads[t].size() >= max_thread_ops) continue;
    COp o;
    o.op = static_cast<Op>(op_table[(w0 >> 8) % n_choices]);
    o.plan = static_cast<std::uint32_t>(z);
    std::vector<Loc> &mine = objs[t];
    switch (o.op)
    {
    case op_set:
      o.loc = decode_loc(x, 3);
      o.value = static_cast<int>(y % 7);
      break;
    case op_get: o.loc = decode_loc(x, 3); break;
    case op_obj_ctx:
      o.name = name_table[y % 8];
      o.loc = Loc{o.name};
      mine.push_back(o.loc);
      break;
    case op_obj_loc:
      o.ctor_loc = decode_loc(x, 2);
      o.name = name_table[y % 8];
      o.loc = o.ctor_loc;
      o.loc.push_back(o.name);
      mine.push_back(o.loc);
      break;
    case op_obj_parent:
      if (mine.empty() || mine[x % mine.size()].size() >= 3) { o.skip = true; break; }
      o.obj = static_cast<std::size_t>(x % mine.size());
      o.name = name_table[y % 8];
      o.loc = mine[o.obj];
      o.loc.push_back(o.name);
      mine.push_back(o.loc);
      break;
    default:
      if (mine.empty()) { o.skip = true; break; }
      o.obj = static_cast<std::size_t>(x % mine.size());
      o.loc = mine[o.obj];
      o.value = static_cast<int>(y % 6);
      break;
    }
    if (!o.skip) k.threads[t].push_back(std::move(o));
  }
  return k;
}

std::string show_op(COp const &o)
{
  std::string r = op_names[o.op];
  switch (o.op)
  {
  case op_set: r += "(" + show(o.loc) + "," + level_names[o.value] + ")"; break;
  case op_get: r += "(" + show(o.loc) + ")"; break;
  case op_obj_ctx: r += std::string("(") + names[o.name] + ")"; break;
  case op_obj_loc: r += "(" + show(o.ctor_loc) + "," + names[o.name] + ")"; break;
  case op_obj_parent: r += "(#" + std::to_string(o.obj) + "," + names[o.name] + ")"; break;
  default: r += "(#" + std::to_string(o.obj) + "@" + show(o.loc) + "," + level_names[o.value] + ")"; break;
  }
  if (o.plan != 0)
  {
    char b[16];
    std::snprintf(b, sizeof b, "/d%08x", o.plan);
    r += b;
  }
  return r;
}
std::string conc_describe(Ints const &c)
{
  Case const k = decode(c);
  std::string r = std::string("context(root=") + level_names[k.root] + "), " + std::to_string(k.nthreads) + " threads:";
  for (std::size_t t = 0; t < k.threads.size(); ++t)
  {
    r += " T" + std::to_string(t) + "[";
    for (std::size_t i = 0; i < k.threads[t].size(); ++i) r += (i ? " " : "") + show_op(k.threads[t][i]);
    r += "]";
  }
  return r;
}

// static half of the non-trivial rule: >= 2 threads touch overlapping locations with >= 1 set
bool overlapping_set(Case const &k)
{
  for (std::size_t a = 0; a < k.threads.size(); ++a)
    for (COp const &s : k.threads[a])
    {
      if (s.op != op_set) continue;
      for (std::size_t b = 0; b < k.threads.size(); ++b)
      {
        if (a == b) continue;
        for (COp const &o : k.threads[b])
          if (is_prefix(s.loc, o.loc) || is_prefix(o.loc, s.loc)) return true;
      }
    }
  return false;
}

// ------------------------------------------------------------------------------ one repetition
struct Rec
{
  unsigned inv{0}, resp{0}; // set / get / object creation / level() read
  int result{-1}; // get: level; observe: level() result
  unsigned inv2{0}, resp2{0}; // observe: the enabled() call
  bool enabled{false};
};
struct ThreadRun
{
  std::vector<Rec> recs;
  std::vector<std::unique_ptr<flog::object>> objs;
  unsigned start{0};
};

struct Shared
{
  std::atomic<unsigned> clock{0};
  std::atomic<int> arrived{0};
};

inline unsigned stamp(Shared &s) { return s.clock.fetch_add(1U, std::memory_order_relaxed); }

void thread_body(flog::context &ctx, std::vector<COp> const &ops, ThreadRun &run, Shared &sh, int nthreads)
{
  sh.arrived.fetch_add(1, std::memory_order_relaxed);
  for (unsigned n = 0; sh.arrived.load(std::memory_order_relaxed) < nthreads; ++n)
    if (n > 2000U) std::this_thread::yield();
  run.start = stamp(sh);
  for (std::size_t i = 0; i < ops.size(); ++i)
  {
    COp const &o = ops[i];
    Rec &r = run.recs[i];
    t_plan = Plan{};
    t_plan.bits = o.plan;
    switch (o.op)
    {
    case op_set:
    {
      flog::location const l = to_location(o.loc);
      flog::optional_level const v = to_opt(o.value);
      r.inv = stamp(sh);
      ctx.set(l, v);
      r.resp = stamp(sh);
      break;
    }
    case op_get:
    {
      flog::location const l = to_location(o.loc);
      r.inv = stamp(sh);
      flog::optional_level const v = ctx.get(l);
      r.resp = stamp(sh);
      r.result = from_opt(v);
      break;
    }
    case op_obj_ctx:
    case op_obj_loc:
    case op_obj_parent:
    {
      flog::parameters const p(flog::name{fcppt::string{names[o.name]}}, flog::format::optional_function{});
      flog::location const l = to_location(o.ctor_loc);
      std::unique_ptr<flog::object> ob;
      r.inv = stamp(sh);
      if (o.op == op_obj_ctx)
        ob = std::make_unique<flog::object>(fcppt::make_ref(ctx), p);
      else if (o.op == op_obj_loc)
        ob = std::make_unique<flog::object>(fcppt::make_ref(ctx), l, p);
      else
        ob = std::make_unique<flog::object>(*run.objs[o.obj], p);
      r.resp = stamp(sh);
      run.objs.push_back(std::move(ob));
      break;
    }
    default:
    {
      flog::object const &ob = *run.objs[o.obj];
      flog::level const m = level_values[o.value];
      r.inv = stamp(sh);
      flog::optional_level const v = ob.level();
      r.resp = stamp(sh);
      r.inv2 = stamp(sh);
      bool const e = ob.enabled(m);
      r.resp2 = stamp(sh);
      r.result = from_opt(v);
      r.enabled = e;
      break;
    }
    }
    t_plan.bits = 0;
  }
}

// Worker pool: creating 2-6 threads per repetition costs more under TSan than the repetition itself.
// The workers are std::threads that live for the whole run. A job is handed over exactly like a
// thread start and collected exactly like a join: main publishes the job with a release increment
// of `gen`, which every worker acquires (main -> worker edges only); a worker reports with a release
// increment of `done`, which main acquires (worker -> main edges only; a release-only RMW acquires
// nothing, so the workers stay unordered among themselves). Repetitions are ordered through main.
struct Job
{
  flog::context *ctx;
  Case const *k;
  std::vector<ThreadRun> *runs;
  Shared *sh;
};
class Pool
{
public:
  static constexpr int max_threads = 6;
  Pool()
  {
    for (int i = 0; i < max_threads; ++i) th_[i] = std::thread([this, i] { work(i); });
  }
  ~Pool()
  {
    stop_ = true;
    gen_.fetch_add(1U, std::memory_order_release);
    for (std::thread &t : th_) t.join();
  }
  void run(Job const &j)
  {
    job_ = j;
    done_.store(0, std::memory_order_relaxed);
    gen_.fetch_add(1U, std::memory_order_release);
    for (unsigned n = 0; done_.load(std::memory_order_acquire) < max_threads; ++n) idle(n);
  }
private:
  static void idle(unsigned n)
  {
    if (n < 200U) return;
    if (n < 20000U) { std::this_thread::yield(); return; }
    usleep(50);
  }
  void work(int i)
  {
    unsigned seen = 0;
    for (;;)
    {
      for (unsigned n = 0; gen_.load(std::memory_order_acquire) == seen; ++n) idle(n);
      ++seen;
      if (stop_) return;
      if (i < job_.k->nthreads)
        thread_body(*job_.ctx, job_.k->threads[static_cast<std::size_t>(i)], (*job_.runs)[static_cast<std::size_t>(i)], *job_.sh, job_.k->nthreads);
      done_.fetch_add(1, std::memory_order_release);
    }
  }
  std::thread th_[max_threads];
  std::atomic<unsigned> gen_{0};
  std::atomic<int> done_{0};
  Job job_{};
  bool stop_{false};
};
Pool &worker_pool()
{
  static Pool p;
  return p;
}

// ------------------------------------------------------------------------- linearizability (b)
struct LOp
{
  unsigned inv, resp;
  bool is_set;
  Loc loc;
  int value; // set: level written; get: level returned
  int thread; // -1: the quiescent reads after the join
  std::size_t cell{0}; // get: index into the state vector
};
constexpr std::size_t max_lops = 256;
using Mask = std::bitset<max_lops>;

struct Lin
{
  std::vector<LOp> ops;
  std::vector<Loc> cells; // distinct get locations
  std::vector<std::vector<std::size_t>> covered; // per set op: the cells below its location
  std::set<std::string> memo;
  u64 nodes{0};
  bool budget_hit{false};
  static constexpr u64 node_budget = 300000;

  bool search(Mask const &done, std::string const &state, std::size_t ndone)
  {
    if (ndone == ops.size()) return true;
    if (++nodes > node_budget)
    {
      budget_hit = true;
      return true; // inconclusive: never a violation
    }
    unsigned minresp = ~0U;
    for (std::size_t i = 0; i < ops.size(); ++i)
      if (!done[i]) minresp = std::min(minresp, ops[i].resp);
    // A minimal get whose value matches the state can be linearized at once: it does not change
    // the state and, being minimal, may precede every other pending operation.
    for (std::size_t i = 0; i < ops.size(); ++i)
      if (!done[i] && !ops[i].is_set && ops[i].inv < minresp && state[ops[i].cell] == static_cast<char>(ops[i].value))
      {
        Mask d = done;
        d.set(i);
        return search(d, state, ndone + 1);
      }
    std::string key = done.to_string() + state;
    if (!memo.insert(std::move(key)).second) return false;
    for (std::size_t i = 0; i < ops.size(); ++i)
    {
      if (done[i] || !ops[i].is_set || ops[i].inv >= minresp) continue;
      std::string st = state;
      for (std::size_t cidx : covered[i]) st[cidx] = static_cast<char>(ops[i].value);
      Mask d = done;
      d.set(i);
      if (search(d, st, ndone + 1)) return true;
    }
    return false;
  }

  bool linearizable(int root)
  {
    for (LOp &o : ops)
      if (!o.is_set)
      {
        auto it = std::find(cells.begin(), cells.end(), o.loc);
        if (it == cells.end())
        {
          cells.push_back(o.loc);
          it = cells.end() - 1;
        }
        o.cell = static_cast<std::size_t>(it - cells.begin());
      }
    covered.assign(ops.size(), {});
    for (std::size_t i = 0; i < ops.size(); ++i)
      if (ops[i].is_set)
        for (std::size_t cidx = 0; cidx < cells.size(); ++cidx)
          if (is_prefix(ops[i].loc, cells[cidx])) covered[i].push_back(cidx);
    return search(Mask{}, std::string(cells.size(), static_cast<char>(root)), 0);
  }
};

std::string history_text(Case const &k, std::vector<ThreadRun> const &runs, std::vector<LOp> const &quiescent)
{
  std::ostringstream o;
  o << "root=" << level_names[k.root] << "; [inv,resp] are stamps of one relaxed counter;";
  for (std::size_t t = 0; t < runs.size(); ++t)
  {
    o << " T" << t << ":";
    for (std::size_t i = 0; i < k.threads[t].size(); ++i)
    {
      COp const &op = k.threads[t][i];
      Rec const &r = runs[t].recs[i];
      o << " " << show_op(op);
      if (op.op == op_get) o << "=" << (r.result < 0 ? "?" : level_names[r.result]);
      o << "[" << r.inv << "," << r.resp << "]";
      if (op.op == op_observe)
        o << "level=" << (r.result < 0 ? "?" : level_names[r.result]) << ",enabled=" << (r.enabled ? "true" : "false") << "[" << r.inv2 << "," << r.resp2 << "]";
    }
    o << ";";
  }
  o << " after join:";
  for (LOp const &q : quiescent) o << " " << show(q.loc) << "=" << (q.value < 0 ? "?" : level_names[q.value]);
  return o.str();
}

struct RepResult
{
  bool created_while_others_run{false};
  bool budget{false};
  std::string key, what; // empty key: held
};

RepResult run_once(Case const &k)
{
  RepResult res;
  std::array<std::ostringstream, n_levels> sinks;
  flog::context ctx{to_opt(k.root), fcppt::enum_::array_init<flog::level_stream_array>([&sinks](flog::level const lv) {
                      return flog::level_stream(sinks[static_cast<std::size_t>(from_opt(flog::optional_level{lv}))], flog::format::optional_function{});
                    })};
  Shared sh;
  std::vector<ThreadRun> runs(k.threads.size());
  for (std::size_t t = 0; t < runs.size(); ++t) runs[t].recs.resize(k.threads[t].size());
  worker_pool().run(Job{&ctx, &k, &runs, &sh});
  // ---- quiescent reads: every location used and every object, after everything else
  std::vector<LOp> lops;
  std::vector<LOp> quiescent;
  {
    unsigned now = sh.clock.load(std::memory_order_relaxed);
    std::vector<Loc> seen;
    auto read_loc = [&](Loc const &l, int v) {
      LOp q{now, now + 1, false, l, v, -1};
      now += 2;
      quiescent.push_back(q);
    };
    for (std::size_t t = 0; t < runs.size(); ++t)
      for (std::size_t i = 0; i < k.threads[t].size(); ++i)
      {
        COp const &op = k.threads[t][i];
        for (std::size_t d = 0; d <= op.loc.size(); ++d)
        {
          Loc const p(op.loc.begin(), op.loc.begin() + static_cast<std::ptrdiff_t>(d));
          if (std::find(seen.begin(), seen.end(), p) != seen.end()) continue;
          seen.push_back(p);
          read_loc(p, from_opt(ctx.get(to_location(p))));
        }
      }
    // Reading: the property demands that an object reports the level of its location; at
    // quiescence this is a get of the object's location
    for (std::size_t t = 0; t < runs.size(); ++t)
    {
      std::size_t oi = 0;
      for (std::size_t i = 0; i < k.threads[t].size(); ++i)
      {
        COp const &op = k.threads[t][i];
        if (op.op != op_obj_ctx && op.op != op_obj_loc && op.op != op_obj_parent) continue;
        read_loc(op.loc, from_opt(runs[t].objs[oi++]->level()));
      }
    }
  }
  for (std::size_t t = 0; t < runs.size(); ++t)
    for (std::size_t i = 0; i < k.threads[t].size(); ++i)
    {
      COp const &op = k.threads[t][i];
      Rec const &r = runs[t].recs[i];
      if (op.op == op_set) lops.push_back(LOp{r.inv, r.resp, true, op.loc, op.value, static_cast<int>(t)});
      if (op.op == op_get) lops.push_back(LOp{r.inv, r.resp, false, op.loc, r.result, static_cast<int>(t)});
    }
  std::vector<LOp> const sets = lops; // filtered below
  for (LOp const &q : quiescent) lops.push_back(q);

  // ---- (b)
  if (lops.size() <= max_lops)
  {
    Lin lin;
    lin.ops = lops;
    bool const ok = lin.linearizable(k.root);
    res.budget = lin.budget_hit;
    if (!ok)
    {
      res.key = "context::set/get|linearizability|concurrent-history";
      res.what = "the set/get history (with the reads after the join) has no linearization against 'latest set on a prefix wins': " + history_text(k, runs, quiescent);
    }
  }
  // ---- (c)
  if (res.key.empty())
  {
    for (std::size_t t = 0; t < runs.size() && res.key.empty(); ++t)
      for (std::size_t i = 0; i < k.threads[t].size() && res.key.empty(); ++i)
      {
        COp const &op = k.threads[t][i];
        if (op.op != op_observe) continue;
        Rec const &r = runs[t].recs[i];
        auto allowed = [&](unsigned rinv, unsigned rresp) {
          std::set<int> a;
          bool root_ok = true;
          for (LOp const &s : sets)
          {
            if (!s.is_set || !is_prefix(s.loc, op.loc)) continue;
#if defined(__x86_64__)
            if (s.resp < rinv) root_ok = false;
            if (s.inv >= rresp) continue;
            bool overwritten = false;
            for (LOp const &s2 : sets)
              if (s2.is_set && is_prefix(s2.loc, op.loc) && s.resp < s2.inv && s2.resp < rinv) overwritten = true;
            if (!overwritten) a.insert(s.value);
#else
            a.insert(s.value);
#endif
          }
          if (root_ok) a.insert(k.root);
          return a;
        };
        std::set<int> const a1 = allowed(r.inv, r.resp);
        if (a1.count(r.result) == 0)
        {
          res.key = "object::level|value-no-ordering-produces|concurrent-set";
          res.what = "T" + std::to_string(t) + " operation " + std::to_string(i) + ": level() = " + (r.result < 0 ? "?" : level_names[r.result]) +
                     " was neither written by a set on a prefix that is not definitely overwritten before the read began nor is it the still valid root level: " +
                     history_text(k, runs, quiescent);
          break;
        }
        std::set<int> const a2 = allowed(r.inv2, r.resp2);
        bool any = false;
        for (int v : a2)
          if (model_enabled(v, op.value) == r.enabled) any = true;
        if (!any)
        {
          res.key = "object::enabled|decision-no-ordering-produces|concurrent-set";
          res.what = "T" + std::to_string(t) + " operation " + std::to_string(i) + ": enabled(" + level_names[op.value] + ") = " + (r.enabled ? "true" : "false") +
                     " is not the decision for any level a sequential ordering could have put at the location: " + history_text(k, runs, quiescent);
        }
      }
  }
  // ---- dynamic half of the non-trivial rule: a node was created after another thread had started
  {
    struct Cr
    {
      Loc path;
      unsigned inv, resp;
      std::size_t thread;
    };
    std::vector<Cr> creators;
    for (std::size_t t = 0; t < runs.size(); ++t)
      for (std::size_t i = 0; i < k.threads[t].size(); ++i)
      {
        COp const &op = k.threads[t][i];
        if (op.op == op_get || op.op == op_observe) continue;
        creators.push_back(Cr{op.loc, runs[t].recs[i].inv, runs[t].recs[i].resp, t});
      }
    std::set<Loc> nodes;
    for (Cr const &c : creators)
      for (std::size_t d = 1; d <= c.path.size(); ++d) nodes.insert(Loc(c.path.begin(), c.path.begin() + static_cast<std::ptrdiff_t>(d)));
    for (Loc const &n : nodes)
    {
      unsigned minresp = ~0U, mininv = ~0U;
      for (Cr const &c : creators)
        if (is_prefix(n, c.path)) { minresp = std::min(minresp, c.resp); mininv = std::min(mininv, c.inv); }
      std::set<std::size_t> cand, started;
      for (Cr const &c : creators)
        if (is_prefix(n, c.path) && c.inv < minresp) cand.insert(c.thread);
      for (std::size_t t = 0; t < runs.size(); ++t)
        if (!k.threads[t].empty() && runs[t].start < mininv) started.insert(t);
      bool other = started.size() >= 2;
      for (std::size_t t : started)
        if (cand.count(t) == 0) other = true;
      if (other) res.created_while_others_run = true;
    }
  }
  for (ThreadRun &r : runs)
    while (!r.objs.empty()) r.objs.pop_back();
  return res;
}

// A TSan report ends in Die(): the common runtime's death callback dumps the statistics with the
// current case, then abort() raises SIGABRT. The common SIGABRT handler leaves through _exit(),
// which TSan intercepts (Finalize -> ThreadRegistry::Lock) while the reporting thread still holds
// that lock: the process would hang instead of dying. This handler leaves through the raw system
// call when the statistics file is already there and otherwise chains to the common handler.
void (*g_prev_abort)(int) = nullptr;
char g_out_path[1024];
void abort_handler(int sig)
{
  if (g_out_path[0] != 0 && access(g_out_path, F_OK) == 0) syscall(SYS_exit_group, 134);
  if (g_prev_abort != nullptr && g_prev_abort != SIG_DFL && g_prev_abort != SIG_IGN) g_prev_abort(sig);
  syscall(SYS_exit_group, 134);
}
void install_abort_handler()
{
  static bool done = false;
  if (done) return;
  done = true;
  std::snprintf(g_out_path, sizeof g_out_path, "%s", opts().out.c_str());
  g_prev_abort = std::signal(SIGABRT, abort_handler);
}

void conc_case(Ints const &c)
{
  install_abort_handler();
  // Shrinking budget: every shrink candidate costs a full set of repetitions and a failure that
  // depends on the interleaving makes the shrink search wander, so after the first violation of
  // this run at most 300 further candidates are evaluated (the rest count as passing, which ends
  // the shrink with the smallest failing case found so far).
  if (!opts().replay && violations_in_current() > 0)
  {
    static int shrink_evals = 0;
    if (++shrink_evals > 300) return;
  }
  Case const k = decode(c);
  bool const overlap = overlapping_set(k);
  int reps = opts().thorough() ? 200 : 20;
  if (opts().replay) reps = std::max(reps, 100);
  bool dynamic_nt = false;
  for (int rep = 0; rep < reps; ++rep)
  {
    RepResult const r = run_once(k);
    dynamic_nt = dynamic_nt || r.created_while_others_run;
    if (r.budget) cls("linearizability-search-budget-hit");
    if (!r.key.empty())
    {
      // Non-determinism rule: run the same case up to 50 more times; the recorded history is
      // reported in any case (it is its own evidence), together with how often it happened again.
      int again = 0, runs_done = 0;
      for (; runs_done < 50 && again == 0; ++runs_done)
        if (!run_once(k).key.empty()) ++again;
      fail(r.key, r.what + (again ? " [happened again within " + std::to_string(runs_done) + " re-runs]" : " [did not happen again in 50 re-runs]"));
      break;
    }
  }
  cls(overlap ? "overlapping-set" : "no-overlapping-set");
  count(overlap && dynamic_nt);
}

Reg const r_conc{"log_concurrent", Kind::random,
                 "at least two threads touch overlapping locations (one a prefix of the other) with at least one set among them, and in at least one repetition "
                 "a node was created by one thread after another thread had started (by the stamps)",
                 [] { run_random(*g_cur.sec, {1500, 48}, {1500, 73}); }, conc_case, conc_describe};
}
