// VERIF: lib rc quick_shards=4
// C01 (miscellaneous core part of the registry) - safe API is total.
// Covers public run-time headers no other harness touches: args*, the cast family, enum helpers,
// small functional helpers, range/iterator helpers, record/tuple/variant helpers, smart-pointer
// casts, signal::auto_connection_container, scoped_state_machine, type_name*, getenv, strerror,
// error_code helpers, time wrappers, exception, version_string, format.
// Oracle: (a) the process survives ASan+UBSan+_GLIBCXX_ASSERTIONS, (b) only the documented exception
// types escape, (c) the watchdog, (d) a returned optional/either/variant is well-formed (it is read),
// (e) where the Doxygen comment states the result: a simple independent value oracle.
#include "verif.hpp"

#include <fcppt/args.hpp>
#include <fcppt/args_char.hpp>
#include <fcppt/args_from_second.hpp>
#include <fcppt/args_range.hpp>
#include <fcppt/args_vector.hpp>
#include <fcppt/cast/apply.hpp>
#include <fcppt/cast/enum_to_int.hpp>
#include <fcppt/cast/enum_to_underlying.hpp>
#include <fcppt/cast/float_to_int.hpp>
#include <fcppt/cast/float_to_int_fun.hpp>
#include <fcppt/cast/int_to_enum.hpp>
#include <fcppt/cast/int_to_enum_fun.hpp>
#include <fcppt/cast/int_to_float.hpp>
#include <fcppt/cast/int_to_float_fun.hpp>
#include <fcppt/cast/promote_int.hpp>
#include <fcppt/cast/safe_numeric.hpp>
#include <fcppt/cast/size.hpp>
#include <fcppt/cast/size_fun.hpp>
#include <fcppt/cast/static_cast_fun.hpp>
#include <fcppt/cast/to_signed.hpp>
#include <fcppt/cast/to_signed_fun.hpp>
#include <fcppt/cast/to_unsigned.hpp>
#include <fcppt/cast/to_unsigned_fun.hpp>
#include <fcppt/cast/to_void.hpp>
#include <fcppt/c_deleter.hpp>
#include <fcppt/const_pointer_cast.hpp>
#include <fcppt/default_deleter.hpp>
#include <fcppt/dynamic_pointer_cast.hpp>
#include <fcppt/enable_shared_from_this.hpp>
#include <fcppt/make_ref.hpp>
#include <fcppt/make_shared_ptr.hpp>
#include <fcppt/make_unique_ptr.hpp>
#include <fcppt/reference.hpp>
#include <fcppt/shared_ptr.hpp>
#include <fcppt/static_pointer_cast.hpp>
#include <fcppt/unique_ptr.hpp>
#include <fcppt/unique_ptr_dynamic_cast.hpp>
#include <fcppt/unique_ptr_from_std.hpp>
#include <fcppt/unique_ptr_to_base.hpp>
#include <fcppt/weak_ptr.hpp>
#include <fcppt/cast/dynamic.hpp>
#include <fcppt/cast/dynamic_any.hpp>
#include <fcppt/cast/dynamic_any_fun.hpp>
#include <fcppt/cast/dynamic_cross.hpp>
#include <fcppt/cast/dynamic_cross_fun.hpp>
#include <fcppt/cast/dynamic_fun.hpp>
#include <fcppt/cast/from_void_ptr.hpp>
#include <fcppt/cast/static_downcast.hpp>
#include <fcppt/cast/to_char_ptr.hpp>
#include <fcppt/cast/to_uint_ptr.hpp>
#include <fcppt/cast/to_void_ptr.hpp>
#include <fcppt/mpl/list/object.hpp>
#include <fcppt/optional/object.hpp>
#include <fcppt/optional/reference.hpp>
#include <fcppt/variant/dynamic_cast.hpp>
#include <fcppt/variant/dynamic_cast_types.hpp>
#include <fcppt/variant/from_list.hpp>
#include <fcppt/variant/holds_type.hpp>
#include <fcppt/variant/object.hpp>
#include <fcppt/variant/to_optional_ref.hpp>
#include <fcppt/output_to_std_string.hpp>
#include <fcppt/output_to_std_wstring.hpp>
#include <fcppt/assert/unreachable.hpp>
#include <fcppt/enum/array.hpp>
#include <fcppt/enum/array_init.hpp>
#include <fcppt/enum/array_output.hpp>
#include <fcppt/enum/index_of_array.hpp>
#include <fcppt/enum/max_value.hpp>
#include <fcppt/enum/min_value.hpp>
#include <fcppt/endianness/raw_value.hpp>
#include <fcppt/endianness/reverse_mem.hpp>
#include <fcppt/enum/names.hpp>
#include <fcppt/enum/names_array.hpp>
#include <fcppt/enum/size.hpp>
#include <fcppt/enum/to_static.hpp>
#include <fcppt/enum/to_string_case.hpp>
#include <fcppt/enum/to_string_impl_fwd.hpp>
#include <fcppt/cond.hpp>
#include <fcppt/const.hpp>
#include <fcppt/copy.hpp>
#include <fcppt/deref.hpp>
#include <fcppt/deref_reference.hpp>
#include <fcppt/deref_unique_ptr.hpp>
#include <fcppt/function.hpp>
#include <fcppt/hash_combine.hpp>
#include <fcppt/identity.hpp>
#include <fcppt/literal.hpp>
#include <fcppt/make_function.hpp>
#include <fcppt/make_literal_strong_typedef.hpp>
#include <fcppt/make_strong_typedef.hpp>
#include <fcppt/move_clear.hpp>
#include <fcppt/move_if_rvalue.hpp>
#include <fcppt/move_iterator_if_rvalue.hpp>
#include <fcppt/overload.hpp>
#include <fcppt/strong_typedef.hpp>
#include <fcppt/either/monad.hpp>
#include <fcppt/either/object.hpp>
#include <fcppt/iterator/range_comparison.hpp>
#include <fcppt/iterator/range_impl.hpp>
#include <fcppt/monad/do.hpp>
#include <fcppt/optional/make.hpp>
#include <fcppt/optional/monad.hpp>
#include <fcppt/range/begin.hpp>
#include <fcppt/range/empty.hpp>
#include <fcppt/range/end.hpp>
#include <fcppt/range/from_pair.hpp>
#include <fcppt/range/singular.hpp>
#include <fcppt/range/size.hpp>
#include <fcppt/error_code_to_string.hpp>
#include <fcppt/exception.hpp>
#include <fcppt/format.hpp>
#include <fcppt/getenv.hpp>
#include <fcppt/make_optional_error_code.hpp>
#include <fcppt/optional_error_code.hpp>
#include <fcppt/scoped_state_machine.hpp>
#include <fcppt/string.hpp>
#include <fcppt/text.hpp>
#include <fcppt/type_name.hpp>
#include <fcppt/type_name_from_index.hpp>
#include <fcppt/type_name_from_info.hpp>
#include <fcppt/version.hpp>
#include <fcppt/version_string.hpp>
#include <fcppt/array/object.hpp>
#include <fcppt/error/strerrno.hpp>
#include <fcppt/error/strerror.hpp>
#include <fcppt/mpl/arg.hpp>
#include <fcppt/mpl/bind.hpp>
#include <fcppt/mpl/lambda.hpp>
#include <fcppt/mpl/list/object.hpp>
#include <fcppt/record/disjoint_product.hpp>
#include <fcppt/record/element.hpp>
#include <fcppt/record/element_to_type.hpp>
#include <fcppt/record/from_list.hpp>
#include <fcppt/record/get.hpp>
#include <fcppt/record/label_name.hpp>
#include <fcppt/record/label_value_type.hpp>
#include <fcppt/record/make_label.hpp>
#include <fcppt/record/map_elements.hpp>
#include <fcppt/record/object.hpp>
#include <fcppt/signal/auto_connection.hpp>
#include <fcppt/signal/auto_connection_container.hpp>
#include <fcppt/signal/object.hpp>
#include <fcppt/time/gmtime.hpp>
#include <fcppt/time/localtime.hpp>
#include <fcppt/time/output_tm.hpp>
#include <fcppt/time/std_time.hpp>
#include <fcppt/tuple/apply.hpp>
#include <fcppt/tuple/element.hpp>
#include <fcppt/tuple/from_array.hpp>
#include <fcppt/tuple/get.hpp>
#include <fcppt/tuple/make.hpp>
#include <fcppt/tuple/object.hpp>
#include <fcppt/variant/current_type_name.hpp>
#include <fcppt/variant/has_type.hpp>
#include <fcppt/variant/type_info.hpp>

#include <boost/statechart/simple_state.hpp>
#include <boost/statechart/state_machine.hpp>
#include <cerrno>
#include <ctime>
#include <cxxabi.h>
#include <future>
#include <system_error>
#include <typeindex>
#include <array>
#include <deque>
#include <list>
#include <map>
#include <set>
#include <cmath>
#include <sstream>
#include <string_view>
#include <cstring>
#include <cstdint>
#include <limits>
#include <memory>
#include <stdexcept>
#include <string>
#include <type_traits>
#include <typeinfo>
#include <vector>

// Compile-time facts about the library (sizes, result types) are informational in a C01 harness, like
// the value oracles: on a tree where one of them is false the harness must still compile, so that the
// run can decide totality (a wrong size shows as an out-of-bounds access there, not as a build error).
#define C01_FACT(...) static_assert(true, "")
using namespace verif;

namespace
{
// C01 is about totality (no UB, no crash, no hang, no undocumented exception). The entries below
// also compare results with simple references, because that costs nothing and reads every result
// (so that an ill-formed one trips a sanitizer) - but a result that merely DIFFERS from the reference
// is not a violation of C01: a change to fcppt that keeps a function total while changing its value
// must not make this check raise an alarm. Hence only the totality keys reach verif::fail; a value
// disagreement is counted as a class in the evidence ("informational") and nothing more.
void fail(std::string const &key, std::string const &what)
{
  if (key.find("undocumented-exception") != std::string::npos) verif::fail(key, what);
  else verif::cls("value oracle disagreed (informational, outside C01)");
}
enum class en1 { only, fcppt_maximum = only };
enum class en3 : unsigned char { red, green, blue, fcppt_maximum = blue };
enum class en5 : short { v0, v1, v2, v3, v4, fcppt_maximum = v4 };
}
namespace fcppt::enum_
{
template <>
struct to_string_impl<en1>
{
  static std::string_view get(en1 const v)
  {
    switch (v) { FCPPT_ENUM_TO_STRING_CASE(en1, only); }
    FCPPT_ASSERT_UNREACHABLE;
  }
};
template <>
struct to_string_impl<en3>
{
  static std::string_view get(en3 const v)
  {
    switch (v) { FCPPT_ENUM_TO_STRING_CASE(en3, red); FCPPT_ENUM_TO_STRING_CASE(en3, green); FCPPT_ENUM_TO_STRING_CASE(en3, blue); }
    FCPPT_ASSERT_UNREACHABLE;
  }
};
template <>
struct to_string_impl<en5>
{
  static std::string_view get(en5 const v)
  {
    switch (v) { FCPPT_ENUM_TO_STRING_CASE(en5, v0); FCPPT_ENUM_TO_STRING_CASE(en5, v1); FCPPT_ENUM_TO_STRING_CASE(en5, v2); FCPPT_ENUM_TO_STRING_CASE(en5, v3); FCPPT_ENUM_TO_STRING_CASE(en5, v4); }
    FCPPT_ASSERT_UNREACHABLE;
  }
};
}

namespace
{
volatile long long g_sink = 0;
template <typename T>
void touch(T const &v)
{
  // read the object representation so that an ill-formed result trips a sanitizer
  unsigned char const *p = reinterpret_cast<unsigned char const *>(&v);
  long long s = 0;
  for (std::size_t i = 0; i < sizeof(T); ++i) s += p[i];
  g_sink = g_sink + s;
}
void touch(std::string const &s) { long long t = 0; for (char c : s) t += c; g_sink = g_sink + t + static_cast<long long>(s.size()); }
void touch(std::wstring const &s) { long long t = 0; for (wchar_t c : s) t += c; g_sink = g_sink + t; }

// call f; only the whitelisted exception types may escape
template <typename... Allowed, typename F>
void total(char const *site, F &&f)
{
  try
  {
    f();
  }
  catch (std::bad_alloc const &)
  {
  }
  catch (std::exception const &e)
  {
    bool ok = false;
    ((ok = ok || dynamic_cast<Allowed const *>(&e) != nullptr), ...);
    if (!ok) fail(std::string(site) + "|undocumented-exception", std::string(typeid(e).name()) + ": " + e.what());
  }
  catch (...)
  {
    fail(std::string(site) + "|undocumented-exception", "non-std exception escaped");
  }
}

std::string show_string(std::string const &s)
{
  std::string r = "\"";
  for (unsigned char ch : s)
  {
    if (ch >= 0x20 && ch < 0x7f && ch != '"') r.push_back(static_cast<char>(ch));
    else { char b[8]; std::snprintf(b, sizeof b, "\\x%02x", ch); r += b; }
  }
  return r + "\"";
}

// ---------------------------------------------------------------------------- args
// Reading: fcppt::args / args_from_second are documented for "command line arguments received in
// main": argv has argc + 1 entries, the last one a null pointer, every other one a NUL-terminated
// string (argc == 0 is allowed by the C++ standard: then argv[0] is the null pointer). The harness
// builds exactly such vectors on the heap (exact-size allocations, so an over-read is an ASan error).
char const args_alphabet[] = {'a', '-', '=', ' ', '\xff', '\xc3', '\xa4', '0', '\n', '"'};
std::vector<std::string> decode_args(Ints const &c)
{
  Choices ch(c);
  std::size_t const argc = static_cast<std::size_t>(ch.range(0, 5));
  std::vector<std::string> r;
  for (std::size_t i = 0; i < argc; ++i)
  {
    std::size_t const len = static_cast<std::size_t>(ch.range(0, 4));
    std::string s;
    for (std::size_t k = 0; k < len; ++k) s.push_back(args_alphabet[ch.index(sizeof args_alphabet)]);
    r.push_back(s);
  }
  return r;
}
void args_one(std::vector<std::string> const &in)
{
  bool has_empty = false;
  for (auto const &s : in) has_empty = has_empty || s.empty();
  count(in.size() <= 1 || has_empty);
  int const argc = static_cast<int>(in.size());
  std::vector<std::unique_ptr<char[]>> store;
  std::unique_ptr<fcppt::args_char const *[]> argv(new fcppt::args_char const *[in.size() + 1]);
  for (std::size_t i = 0; i < in.size(); ++i)
  {
    store.emplace_back(new char[in[i].size() + 1]);
    std::copy(in[i].begin(), in[i].end(), store.back().get());
    store.back()[in[i].size()] = '\0';
    argv[i] = store.back().get();
  }
  argv[in.size()] = nullptr;
  total("args", [&] {
    fcppt::args_vector const r = fcppt::args(argc, argv.get());
    if (r != in) fail("args|value", "fcppt::args does not return the " + std::to_string(argc) + " argument strings");
    for (auto const &s : r) touch(s);
  });
  total("args_from_second", [&] {
    fcppt::args_vector const r = fcppt::args_from_second(argc, argv.get());
    std::vector<std::string> const want(in.begin() + (in.empty() ? 0 : 1), in.end());
    if (r != want) fail("args_from_second|value", "args_from_second(argc=" + std::to_string(argc) + ") returned " + std::to_string(r.size()) + " strings, expected " + std::to_string(want.size()));
    for (auto const &s : r) touch(s);
    // args_range is a view over an args_vector
    fcppt::args_range const range{r.begin(), r.end()};
    std::size_t n = 0;
    for (auto const &s : range) { touch(s); ++n; }
    if (n != want.size() || (range.begin() == range.end()) != want.empty()) fail("args_range|size", "args_range over the vector has the wrong length");
  });
}
std::string describe_args(Ints const &c)
{
  std::string r = "args / args_from_second on argv = [";
  for (auto const &s : decode_args(c)) r += show_string(s) + " ";
  return r + "]";
}
Reg const r_args{"args", Kind::random, "argc is 0 or 1, or some argument is the empty string",
                 [] { run_random(*g_cur.sec, {1500, 8}, {20000, 8}); },
                 [](Ints const &c) { args_one(decode_args(c)); }, describe_args};

// ---------------------------------------------------------------------------- integer / float casts
// Reading: to_signed ("only if the value fits"), to_unsigned ("only if positive"), size (only when
// the value is representable in the destination: narrowing is otherwise outside "exact result
// representable"), float_to_int (only when the truncated value is representable: anything else is UB
// in C++ and the cast is documented "unsafe"), int_to_enum (only values of enumerators) are called
// inside these domains only. promote_int, safe_numeric, int_to_float, enum_to_underlying are total.
// Oracle: the mathematical value (as __int128 / long double) is preserved.
enum class e8 : unsigned char { a, b, c, fcppt_maximum = c };
enum class es : int { m = -2, z = 0, p = 100000 };

using i128 = __int128;
template <typename T>
constexpr bool fits(i128 v)
{
  return v >= static_cast<i128>(std::numeric_limits<T>::min()) && v <= static_cast<i128>(std::numeric_limits<T>::max());
}
char const *const ty_names[] = {"u8", "i8", "u16", "i16", "u32", "i32", "u64", "i64"};

template <typename D, typename S>
void size_to(S v, char const *tn)
{
  if (!fits<D>(static_cast<i128>(v))) { skip(); return; }
  D const r = fcppt::cast::size<D>(v);
  D const r2 = fcppt::cast::apply<fcppt::cast::size_fun, D>(v);
  if (static_cast<i128>(r) != static_cast<i128>(v) || r2 != r) fail(std::string("cast::size|value|") + tn, "size cast changed the value " + str(static_cast<i128>(v)));
}
template <typename D, typename S>
void safe_to(S v, char const *tn)
{
  if constexpr (sizeof(D) >= sizeof(S))
  {
    D const r = fcppt::cast::safe_numeric<D>(v);
    if (static_cast<i128>(r) != static_cast<i128>(v)) fail(std::string("cast::safe_numeric|value|") + tn, "safe_numeric changed the value " + str(static_cast<i128>(v)));
  }
}
template <typename F, typename S>
void to_float(S v, char const *tn)
{
  F const r = fcppt::cast::int_to_float<F>(v);
  F const r2 = fcppt::cast::apply<fcppt::cast::int_to_float_fun, F>(v);
  // the conversion rounds to one of the two neighbouring representable values (|error| < 1 ulp);
  // exact whenever the integer has at most as many significant bits as the mantissa
  long double const exact = static_cast<long double>(v); // 64-bit mantissa: exact for every 64-bit integer
  long double const got = static_cast<long double>(r);
  bool ok = std::isfinite(r) && r == r2;
  i128 const mag = static_cast<i128>(v) < 0 ? -static_cast<i128>(v) : static_cast<i128>(v);
  if (mag < (static_cast<i128>(1) << std::numeric_limits<F>::digits)) ok = ok && got == exact;
  else
  {
    long double const lo = std::nextafter(r, -std::numeric_limits<F>::infinity()), hi = std::nextafter(r, std::numeric_limits<F>::infinity());
    ok = ok && exact > lo && exact < hi;
  }
  if (!ok) fail(std::string("cast::int_to_float|value|") + tn, "int_to_float(" + str(static_cast<i128>(v)) + ") is not a neighbouring floating point value");
}
template <typename T>
void float_to_int_one(T v, char const *tn)
{
  if constexpr (std::is_signed_v<T>)
  {
    i128 const mag = static_cast<i128>(v) < 0 ? -static_cast<i128>(v) : static_cast<i128>(v);
    if (mag >= (static_cast<i128>(1) << 50)) // v +- fraction not exactly representable as double
    {
      if (static_cast<i128>(static_cast<double>(v)) == static_cast<i128>(v) && fits<T>(static_cast<i128>(static_cast<double>(v))))
      {
        T const r = fcppt::cast::float_to_int<T>(static_cast<double>(v));
        if (r != v) fail(std::string("cast::float_to_int|value|") + tn, "float_to_int(" + str(static_cast<i128>(v)) + ".0) differs");
      }
      else skip();
      return;
    }
    for (int q = 0; q < 4; ++q)
    {
      double const x = static_cast<double>(v) + (v < 0 ? -0.25 : 0.25) * q; // truncates to v
      T const r = fcppt::cast::float_to_int<T>(x);
      T const r2 = fcppt::cast::apply<fcppt::cast::float_to_int_fun, T>(x);
      T const r3 = fcppt::cast::float_to_int<T>(static_cast<long double>(x));
      if (r != v || r2 != v || r3 != v) fail(std::string("cast::float_to_int|truncation|") + tn, "float_to_int(" + str(x) + ") = " + str(static_cast<i128>(r)) + ", expected " + str(static_cast<i128>(v)));
      if (std::abs(x) < 4000000.0) // x (a multiple of 1/4) is exactly representable as float below 2^22
      {
        T const r4 = fcppt::cast::float_to_int<T>(static_cast<float>(x));
        if (r4 != v) fail(std::string("cast::float_to_int|truncation-float|") + tn, "float_to_int(float " + str(x) + ") = " + str(static_cast<i128>(r4)));
      }
    }
    // float <-> float size casts inside the finite range of the destination
    double const d = fcppt::cast::size<double>(static_cast<float>(static_cast<double>(v)));
    float const f = fcppt::cast::size<float>(static_cast<double>(v));
    long double const l = fcppt::cast::safe_numeric<long double>(static_cast<double>(v));
    if (d != static_cast<double>(static_cast<float>(static_cast<double>(v))) || !std::isfinite(f) || l != static_cast<long double>(static_cast<double>(v))) fail(std::string("cast::size|float|") + tn, "float size cast wrong for " + str(static_cast<i128>(v)));
  }
}
template <typename T>
void cast_value(T v, char const *tn)
{
  count(on_lattice<T>(v));
  // promote_int: int or unsigned (or T itself if it is wider), value preserved
  {
    auto const p = fcppt::cast::promote_int(v);
    C01_FACT(sizeof(p) >= sizeof(int) && sizeof(p) >= sizeof(T));
    if (static_cast<i128>(p) != static_cast<i128>(v)) fail(std::string("cast::promote_int|value|") + tn, "promote_int changed " + str(static_cast<i128>(v)));
  }
  if constexpr (std::is_unsigned_v<T>)
  {
    using S = std::make_signed_t<T>;
    if (fits<S>(static_cast<i128>(v)))
    {
      S const r = fcppt::cast::to_signed(v);
      S const r2 = fcppt::cast::apply<fcppt::cast::to_signed_fun, S>(v);
      if (static_cast<i128>(r) != static_cast<i128>(v) || r2 != r) fail(std::string("cast::to_signed|value|") + tn, "to_signed changed " + str(static_cast<i128>(v)));
    }
    else skip();
    size_to<std::uint8_t>(v, tn); size_to<std::uint16_t>(v, tn); size_to<std::uint32_t>(v, tn); size_to<std::uint64_t>(v, tn);
    safe_to<std::uint8_t>(v, tn); safe_to<std::uint16_t>(v, tn); safe_to<std::uint32_t>(v, tn); safe_to<std::uint64_t>(v, tn);
    if (v <= 2)
    {
      e8 const e = fcppt::cast::int_to_enum<e8>(v);
      e8 const e2 = fcppt::cast::apply<fcppt::cast::int_to_enum_fun, e8>(v);
      e8 const e3 = fcppt::cast::apply<fcppt::cast::static_cast_fun, e8>(v);
      e8 const want = v == 0 ? e8::a : (v == 1 ? e8::b : e8::c);
      if (e != want || e2 != want || e3 != want) fail(std::string("cast::int_to_enum|value|") + tn, "int_to_enum<e8>(" + str(static_cast<i128>(v)) + ") is the wrong enumerator");
      if (fcppt::cast::enum_to_int<T>(e) != v || fcppt::cast::enum_to_underlying(e) != static_cast<unsigned char>(v)) fail(std::string("cast::enum_to_int|value|") + tn, "enum_to_int / enum_to_underlying of enumerator " + str(static_cast<i128>(v)));
    }
  }
  else
  {
    using U = std::make_unsigned_t<T>;
    if (v >= 0)
    {
      U const r = fcppt::cast::to_unsigned(v);
      U const r2 = fcppt::cast::apply<fcppt::cast::to_unsigned_fun, U>(v);
      if (static_cast<i128>(r) != static_cast<i128>(v) || r2 != r) fail(std::string("cast::to_unsigned|value|") + tn, "to_unsigned changed " + str(static_cast<i128>(v)));
    }
    else skip();
    size_to<std::int8_t>(v, tn); size_to<std::int16_t>(v, tn); size_to<std::int32_t>(v, tn); size_to<std::int64_t>(v, tn);
    safe_to<std::int8_t>(v, tn); safe_to<std::int16_t>(v, tn); safe_to<std::int32_t>(v, tn); safe_to<std::int64_t>(v, tn);
    if (v == -2 || v == 0)
    {
      es const e = fcppt::cast::int_to_enum<es>(v);
      if (e != (v == 0 ? es::z : es::m) || fcppt::cast::enum_to_int<T>(e) != v || fcppt::cast::enum_to_underlying(e) != static_cast<int>(v)) fail(std::string("cast::int_to_enum|signed-enum|") + tn, "int_to_enum<es>(" + str(static_cast<i128>(v)) + ") does not round trip");
    }
    float_to_int_one(v, tn);
  }
  to_float<float>(v, tn); to_float<double>(v, tn); to_float<long double>(v, tn);
  fcppt::cast::to_void(v);
}
void cast_dispatch(i64 ty, i64 raw)
{
  switch (((ty % 8) + 8) % 8)
  {
  case 0: cast_value(static_cast<std::uint8_t>(raw), ty_names[0]); break;
  case 1: cast_value(static_cast<std::int8_t>(raw), ty_names[1]); break;
  case 2: cast_value(static_cast<std::uint16_t>(raw), ty_names[2]); break;
  case 3: cast_value(static_cast<std::int16_t>(raw), ty_names[3]); break;
  case 4: cast_value(static_cast<std::uint32_t>(raw), ty_names[4]); break;
  case 5: cast_value(static_cast<std::int32_t>(raw), ty_names[5]); break;
  case 6: cast_value(static_cast<std::uint64_t>(raw), ty_names[6]); break;
  default: cast_value(static_cast<std::int64_t>(raw), ty_names[7]); break;
  }
}
template <typename T>
void cast_lattice(i64 ty)
{
  for (T v : lattice<T>()) { cur2(ty, static_cast<i64>(v)); cast_value(v, ty_names[ty]); }
  SplitMix rng(opts().seed * 8 + static_cast<u64>(ty));
  std::size_t const n = opts().thorough() ? 200000 : 3000;
  for (std::size_t i = 0; i < n; ++i)
  {
    T const v = static_cast<T>(rng.next() >> (rng.next() % 64));
    cur2(ty, static_cast<i64>(v));
    cast_value(v, ty_names[ty]);
  }
}
Reg const r_casts{"numeric_casts", Kind::random, "the value lies on the boundary lattice of its type (0, +-1, 2^k, 2^k+-1, min, max, each +-2)",
                  [] {
                    for (i64 v = 0; v < 256; ++v) { cur2(0, v); cast_value(static_cast<std::uint8_t>(v), ty_names[0]); }
                    for (i64 v = -128; v < 128; ++v) { cur2(1, v); cast_value(static_cast<std::int8_t>(v), ty_names[1]); }
                    for (i64 v = 0; v < 65536; ++v) { cur2(2, v); cast_value(static_cast<std::uint16_t>(v), ty_names[2]); }
                    for (i64 v = -32768; v < 32768; ++v) { cur2(3, v); cast_value(static_cast<std::int16_t>(v), ty_names[3]); }
                    cast_lattice<std::uint32_t>(4); cast_lattice<std::int32_t>(5); cast_lattice<std::uint64_t>(6); cast_lattice<std::int64_t>(7);
                  },
                  [](Ints const &c) { cast_dispatch(c.at(0), c.at(1)); },
                  [](Ints const &c) { return std::string("every applicable fcppt::cast function on the ") + ty_names[((c.at(0) % 8) + 8) % 8] + " value with bit pattern " + std::to_string(c.at(1)); }};

// ---------------------------------------------------------------------------- class-hierarchy casts, smart pointers
// Hierarchy: base_l <- da, base_l <- db, base_r (unrelated polymorphic), dab : da, base_r (cross casts
// da <-> base_r succeed only for a dab object).
// Reading: static_downcast / static_pointer_cast are documented unsafe: called only when the dynamic
// type really is (derived from) the destination. dynamic_pointer_cast / unique_ptr_dynamic_cast
// dereference their argument: called with non-null pointers only (fcppt smart pointers made by
// make_* are never null).
int g_live = 0;
struct base_l { virtual ~base_l() { --g_live; } base_l() { ++g_live; } base_l(base_l const &) = delete; int l{1}; };
struct base_r { virtual ~base_r() = default; int r{2}; };
struct da : base_l { int a{3}; };
struct db : base_l { int b{4}; };
struct dab : da, base_r { int ab{5}; };
struct self_sharing : fcppt::enable_shared_from_this<self_sharing>
{
  int v{7};
  fcppt::shared_ptr<self_sharing> me() { return this->fcppt_shared_from_this(); }
  fcppt::shared_ptr<self_sharing const> me_const() const { return this->fcppt_shared_from_this(); }
};

// kind: 0 base_l, 1 da, 2 db, 3 dab
fcppt::unique_ptr<base_l> make_kind(int kind)
{
  switch (kind)
  {
  case 0: return fcppt::make_unique_ptr<base_l>();
  case 1: return fcppt::unique_ptr_to_base<base_l>(fcppt::make_unique_ptr<da>());
  case 2: return fcppt::unique_ptr_to_base<base_l>(fcppt::make_unique_ptr<db>());
  default: return fcppt::unique_ptr_to_base<base_l>(fcppt::make_unique_ptr<dab>());
  }
}
fcppt::shared_ptr<base_l> make_kind_shared(int kind)
{
  switch (kind)
  {
  case 0: return fcppt::shared_ptr<base_l>(fcppt::make_shared_ptr<base_l>());
  case 1: return fcppt::shared_ptr<base_l>(fcppt::make_shared_ptr<da>());
  case 2: return fcppt::shared_ptr<base_l>(fcppt::make_shared_ptr<db>());
  default: return fcppt::shared_ptr<base_l>(fcppt::make_shared_ptr<dab>());
  }
}
char const *const kind_names[] = {"base", "derived_a", "derived_b", "derived_ab"};
void hierarchy_one(int kind, int op)
{
  count(kind == 0 || kind == 3);
  bool const is_da = kind == 1 || kind == 3, is_db = kind == 2, is_dab = kind == 3;
  std::string const kn = kind_names[kind];
  int const live_before = g_live;
  switch (op)
  {
  case 0: // reference casts
    total("cast::dynamic*", [&] {
      auto const owner = make_kind(kind);
      base_l &b = *owner;
      base_l const &cb = b;
      auto const r1 = fcppt::cast::dynamic<da>(b);
      auto const r2 = fcppt::cast::dynamic<db const>(cb);
      auto const r3 = fcppt::cast::dynamic_any<dab>(b);
      auto const r4 = fcppt::cast::dynamic_cross<base_r>(b);
      auto const r5 = fcppt::cast::dynamic_any<base_l>(b); // up/identity cast: always succeeds
      auto const r6 = fcppt::cast::apply<fcppt::cast::dynamic_fun, da>(b);
      auto const r7 = fcppt::cast::apply<fcppt::cast::dynamic_any_fun, db>(b);
      auto const r8 = fcppt::cast::apply<fcppt::cast::dynamic_cross_fun, base_r const>(cb);
      if (r1.has_value() != is_da || r2.has_value() != is_db || r3.has_value() != is_dab || r4.has_value() != is_dab || !r5.has_value() || r6.has_value() != is_da || r7.has_value() != is_db || r8.has_value() != is_dab)
        fail("cast::dynamic|presence|" + kn, "a dynamic cast of a " + kn + " object has the wrong presence");
      if (r1.has_value() && (r1.get_unsafe().get().a != 3 || static_cast<base_l *>(&r1.get_unsafe().get()) != &b)) fail("cast::dynamic|identity|" + kn, "dynamic<da> refers to a different object");
      if (r4.has_value())
      {
        touch(r4.get_unsafe().get().r);
        // and back again across the hierarchy
        auto const back = fcppt::cast::dynamic_cross<base_l>(r4.get_unsafe().get());
        if (!back.has_value() || &back.get_unsafe().get() != &b) fail("cast::dynamic_cross|round-trip|" + kn, "cross cast back does not reach the same object");
      }
      if (r5.has_value() && &r5.get_unsafe().get() != &b) fail("cast::dynamic_any|identity|" + kn, "identity cast refers to another object");
      if (is_da)
      {
        da &d = fcppt::cast::static_downcast<da &>(b);
        da const &cd = fcppt::cast::static_downcast<da const &>(cb);
        if (d.a != 3 || &cd != &d || dynamic_cast<da *>(&b) != &d) fail("cast::static_downcast|identity|" + kn, "static_downcast refers to a different object");
      }
      if (is_dab)
      {
        dab &d = fcppt::cast::static_downcast<dab &>(b);
        if (d.ab != 5 || d.r != 2) fail("cast::static_downcast|identity|" + kn, "static_downcast<dab&> refers to a different object");
      }
      // variant::dynamic_cast_: first successful cast in list order
      {
        using types = fcppt::mpl::list::object<dab, da, db>;
        using result_variant = fcppt::variant::from_list<fcppt::variant::dynamic_cast_types<types>>;
        fcppt::optional::object<result_variant> const r = fcppt::variant::dynamic_cast_<types, fcppt::cast::dynamic_fun>(b);
        if (r.has_value() != (kind != 0)) fail("variant::dynamic_cast_|presence|" + kn, "wrong presence");
        if (r.has_value())
        {
          result_variant const &v = r.get_unsafe();
          bool const ok = kind == 3 ? fcppt::variant::holds_type<fcppt::reference<dab>>(v) : (kind == 1 ? fcppt::variant::holds_type<fcppt::reference<da>>(v) : fcppt::variant::holds_type<fcppt::reference<db>>(v));
          if (!ok) fail("variant::dynamic_cast_|first-match|" + kn, "the variant does not hold the first type of the list that matches");
        }
        using ctypes = fcppt::mpl::list::object<db const>;
        auto const rc = fcppt::variant::dynamic_cast_<ctypes, fcppt::cast::dynamic_fun>(cb);
        if (rc.has_value() != is_db) fail("variant::dynamic_cast_|presence-const|" + kn, "wrong presence");
      }
    });
    break;
  case 1: // raw pointer casts: the round trip yields the same address, the bytes are the object representation
    total("cast::*_ptr", [&] {
      auto const owner = make_kind(kind);
      base_l *const p = owner.get_pointer();
      base_l const *const cp = p;
      void *const v = fcppt::cast::to_void_ptr(p);
      void const *const cv = fcppt::cast::to_void_ptr(cp);
      if (v != static_cast<void *>(p) || cv != v) fail("cast::to_void_ptr|address", "to_void_ptr changed the address");
      if (fcppt::cast::from_void_ptr<base_l *>(v) != p || fcppt::cast::from_void_ptr<base_l const *>(cv) != cp) fail("cast::from_void_ptr|round-trip", "from_void_ptr(to_void_ptr(p)) != p");
      if (fcppt::cast::to_uint_ptr(p) != reinterpret_cast<std::uintptr_t>(p) || fcppt::cast::to_uint_ptr(cp) != fcppt::cast::to_uint_ptr(v)) fail("cast::to_uint_ptr|value", "to_uint_ptr differs from the address");
      int probe = 0x01020304 + kind;
      unsigned char const *const bytes = fcppt::cast::to_char_ptr<unsigned char const *>(&probe);
      unsigned char *const wbytes = fcppt::cast::to_char_ptr<unsigned char *>(&probe);
      char const *const cbytes = fcppt::cast::to_char_ptr<char const *>(&probe);
      int copy = 0;
      std::memcpy(&copy, bytes, sizeof copy);
      if (copy != probe || wbytes != bytes || static_cast<void const *>(cbytes) != static_cast<void const *>(bytes)) fail("cast::to_char_ptr|bytes", "to_char_ptr does not address the object representation");
      if (fcppt::cast::to_void_ptr(static_cast<int *>(nullptr)) != nullptr || fcppt::cast::to_uint_ptr(static_cast<int *>(nullptr)) != 0U || fcppt::cast::from_void_ptr<int *>(static_cast<void *>(nullptr)) != nullptr) fail("cast::*_ptr|null", "a null pointer does not stay null");
    });
    break;
  case 2: // unique_ptr_dynamic_cast: ownership moves into exactly one alternative
    total("unique_ptr_dynamic_cast", [&] {
      {
        auto r = fcppt::unique_ptr_dynamic_cast<fcppt::cast::dynamic_fun, da>(make_kind(kind));
        bool const derived = fcppt::variant::holds_type<fcppt::unique_ptr<da>>(r);
        if (derived != is_da) fail("unique_ptr_dynamic_cast|alternative|" + kn, "the wrong alternative is held");
        auto const od = fcppt::variant::to_optional_ref<fcppt::unique_ptr<da>>(r);
        if (od.has_value()) touch(od.get_unsafe().get()->a);
        auto const ob = fcppt::variant::to_optional_ref<fcppt::unique_ptr<base_l>>(r);
        if (ob.has_value()) touch(ob.get_unsafe().get()->l);
        if (g_live != live_before + 1) fail("unique_ptr_dynamic_cast|ownership|" + kn, "the object was destroyed or duplicated by the cast");
      }
      if (g_live != live_before) fail("unique_ptr_dynamic_cast|leak|" + kn, "the object was not destroyed exactly once");
      auto r2 = fcppt::unique_ptr_dynamic_cast<fcppt::cast::dynamic_any_fun, db>(make_kind(kind));
      if (fcppt::variant::holds_type<fcppt::unique_ptr<db>>(r2) != is_db) fail("unique_ptr_dynamic_cast|alternative|" + kn, "the wrong alternative is held (db)");
    });
    total("unique_ptr_from_std", [&] {
      auto r = fcppt::unique_ptr_from_std(kind == 0 ? std::unique_ptr<int>() : std::make_unique<int>(kind));
      if (r.has_value() != (kind != 0)) fail("unique_ptr_from_std|presence", "null <-> nothing correspondence broken");
      if (r.has_value() && *r.get_unsafe() != kind) fail("unique_ptr_from_std|value", "the pointee changed");
      // deleters
      fcppt::unique_ptr<char, fcppt::c_deleter> const cptr(static_cast<char *>(std::malloc(4)));
      fcppt::c_deleter{}(static_cast<int *>(nullptr)); // free(nullptr) is a no-op
      fcppt::default_deleter{}(static_cast<int const *>(nullptr)); // delete nullptr is a no-op
      fcppt::default_deleter{}(new int(3));
      fcppt::default_deleter{}(static_cast<base_l const *>(new dab())); // through the virtual destructor
    });
    break;
  default: // shared / weak pointers
    total("shared_ptr casts", [&] {
      {
        fcppt::shared_ptr<base_l> const sp = make_kind_shared(kind);
        if (sp.use_count() != 1) fail("shared_ptr|use_count", "fresh pointer not unique");
        {
          auto const r = fcppt::dynamic_pointer_cast<da>(sp);
          if (r.has_value() != is_da) fail("dynamic_pointer_cast|presence|" + kn, "wrong presence");
          if (sp.use_count() != (is_da ? 2 : 1)) fail("dynamic_pointer_cast|ownership|" + kn, "the result does not share ownership with the source");
          if (r.has_value() && (r.get_unsafe()->a != 3 || r.get_unsafe().use_count() != 2)) fail("dynamic_pointer_cast|value|" + kn, "wrong pointee or count");
        }
        if (sp.use_count() != 1) fail("dynamic_pointer_cast|ownership-after|" + kn, "ownership not released");
        if (is_da)
        {
          fcppt::shared_ptr<da> const d = fcppt::static_pointer_cast<da>(sp);
          if (d.use_count() != 2 || d->a != 3 || static_cast<base_l *>(d.get_pointer()) != sp.get_pointer()) fail("static_pointer_cast|value|" + kn, "wrong pointee or count");
        }
        fcppt::shared_ptr<base_l const> const csp(sp);
        {
          fcppt::shared_ptr<base_l> const m = fcppt::const_pointer_cast<base_l>(csp);
          if (m.get_pointer() != sp.get_pointer() || sp.use_count() != 3) fail("const_pointer_cast|value|" + kn, "wrong pointee or count");
        }
        // weak_ptr
        fcppt::weak_ptr<base_l> w(sp);
        fcppt::weak_ptr<base_l> empty_w;
        if (w.expired() || w.use_count() != 2 || !empty_w.expired() || empty_w.use_count() != 0 || empty_w.lock().has_value()) fail("weak_ptr|state", "use_count / expired wrong while the object lives");
        {
          auto const l = w.lock();
          if (!l.has_value() || l.get_unsafe().get_pointer() != sp.get_pointer() || sp.use_count() != 3) fail("weak_ptr|lock-live", "lock() on a live object");
        }
        w.swap(empty_w);
        if (!w.expired() || empty_w.expired()) fail("weak_ptr|swap", "member swap did not exchange");
        swap(w, empty_w);
        if (w.expired()) fail("weak_ptr|swap", "free swap did not exchange");
        fcppt::weak_ptr<base_l> const w2(w);
        touch(w2.std_ptr().use_count());
        // (operator< of fcppt::weak_ptr does not compile: std::weak_ptr has no operator<; compile-time-only defect)
        // observe expiry
        fcppt::weak_ptr<base_l> observer;
        {
          fcppt::shared_ptr<base_l> const tmp = make_kind_shared(kind);
          fcppt::weak_ptr<base_l> o(tmp);
          observer.swap(o);
        }
        if (!observer.expired() || observer.use_count() != 0 || observer.lock().has_value()) fail("weak_ptr|lock-expired|" + kn, "an expired weak_ptr still yields a pointer");
      }
      if (g_live != live_before) fail("shared_ptr|leak|" + kn, "objects not destroyed exactly once");
      // enable_shared_from_this
      fcppt::shared_ptr<self_sharing> const s = fcppt::shared_ptr<self_sharing>(fcppt::make_shared_ptr<self_sharing>());
      fcppt::shared_ptr<self_sharing> const again = s->me();
      fcppt::shared_ptr<self_sharing const> const cagain = s->me_const();
      if (again.get_pointer() != s.get_pointer() || cagain.get_pointer() != s.get_pointer() || s.use_count() != 3) fail("enable_shared_from_this|value", "fcppt_shared_from_this does not share ownership with the owner");
    });
    break;
  }
}
Reg const r_hier{"hierarchy_casts_smart_pointers", Kind::exhaustive, "the dynamic type is the base itself (every down cast fails) or the diamond-free multiple-inheritance class (cross casts succeed)",
                 [] { for (i64 k = 0; k < 4; ++k) for (i64 op = 0; op < 4; ++op) { cur2(k, op); hierarchy_one(static_cast<int>(k), static_cast<int>(op)); } },
                 [](Ints const &c) { hierarchy_one(static_cast<int>(static_cast<u64>(c.at(0)) % 4), static_cast<int>(static_cast<u64>(c.at(1)) % 4)); },
                 [](Ints const &c) { static char const *const ops[] = {"reference casts (dynamic, dynamic_any, dynamic_cross, static_downcast, variant::dynamic_cast_)", "raw pointer casts", "unique_ptr_dynamic_cast / unique_ptr_from_std / deleters", "shared_ptr casts, weak_ptr, enable_shared_from_this"}; return std::string(ops[static_cast<u64>(c.at(1)) % 4]) + " on an object of dynamic type " + kind_names[static_cast<u64>(c.at(0)) % 4]; }};

// ---------------------------------------------------------------------------- enum helpers
// Case: (enum with 1 / 3 / 5 enumerators, array contents in {0,1,2}^size as a base-3 number, searched
// value, run-time enumerator). Oracles: names() lists the enumerator names in order; index_of_array
// returns the FIRST index holding the value or nothing; to_static calls the function with the
// integral_constant of the run-time value; min_value / max_value / size are 0, the last enumerator and
// the count. Reading: the textual form of array_output is not in its Doxygen comment; the form pinned
// by the upstream test (test/enum/array_output.cpp: "[name=value,...]") is used.
template <typename E, std::size_t N>
void enum_one(char const *en, std::array<char const *, N> const &names, u64 contents, int search, std::size_t current)
{
  C01_FACT(fcppt::enum_::size<E>::value == N);
  C01_FACT(static_cast<std::size_t>(fcppt::enum_::max_value<E>::value) == N - 1);
  C01_FACT(static_cast<std::size_t>(fcppt::enum_::min_value<E>::value) == 0);
  current %= N;
  std::array<int, N> vals{};
  for (std::size_t i = 0; i < N; ++i) { vals[i] = static_cast<int>(contents % 3); contents /= 3; }
  std::size_t first = N;
  for (std::size_t i = N; i-- > 0;) if (vals[i] == search) first = i;
  count(first == N || first == N - 1 || N == 1);
  std::string const key = en;
  total("enum::names", [&] {
    fcppt::enum_::names_array<E> const n = fcppt::enum_::names<E>();
    std::size_t i = 0;
    for (std::string_view const sv : n)
    {
      if (sv != names[i]) fail("enum::names|value|" + key, "name " + std::to_string(i) + " is " + std::string(sv));
      ++i;
    }
    if (i != N) fail("enum::names|count|" + key, "names() has the wrong length");
    for (std::size_t k = 0; k < N; ++k)
    {
      auto const r = fcppt::enum_::index_of_array(n, std::string_view{names[k]});
      if (!r.has_value() || static_cast<std::size_t>(r.get_unsafe()) != k) fail("enum::index_of_array|names|" + key, std::string("name ") + names[k] + " not found at its index");
    }
    std::string const upper = std::string(names[current]) + "X";
    if (fcppt::enum_::index_of_array(n, std::string_view{upper}).has_value() || fcppt::enum_::index_of_array(n, std::string_view{}).has_value()) fail("enum::index_of_array|names-absent|" + key, "a non-name was found");
  });
  total("enum::index_of_array", [&] {
    using arr_t = fcppt::enum_::array<E, int>;
    arr_t const arr = fcppt::enum_::array_init<arr_t>([&vals]<E Index>(std::integral_constant<E, Index>) { return vals[static_cast<std::size_t>(Index)]; });
    auto const r = fcppt::enum_::index_of_array(arr, search);
    if (r.has_value() != (first != N)) fail("enum::index_of_array|presence|" + key, "presence wrong for value " + std::to_string(search));
    else if (r.has_value() && static_cast<std::size_t>(r.get_unsafe()) != first) fail("enum::index_of_array|first|" + key, "returned index " + std::to_string(static_cast<std::size_t>(r.get_unsafe())) + ", the first occurrence is at " + std::to_string(first));
    // output
    std::string want = "[";
    for (std::size_t i = 0; i < N; ++i) want += std::string(names[i]) + "=" + std::to_string(vals[i]) + (i + 1 < N ? "," : "");
    want += "]";
    std::ostringstream os;
    os << arr;
    if (!os.good()) fail("enum::array_output|stream-state|" + key, "the stream is not good after output");
    if (os.str() != want) fail("enum::array_output|form|" + key, "printed " + os.str() + ", expected " + want);
    std::wostringstream wos;
    wos << arr;
    if (!wos.good() || wos.str() != std::wstring(want.begin(), want.end())) fail("enum::array_output|wide|" + key, "wide output differs from " + want);
  });
  total("enum::to_static", [&] {
    E const e = static_cast<E>(current);
    int const r = fcppt::enum_::to_static(e, []<E Value>(std::integral_constant<E, Value>) { return static_cast<int>(Value) * 10 + 1; });
    if (r != static_cast<int>(current) * 10 + 1) fail("enum::to_static|dispatch|" + key, "to_static(" + std::to_string(current) + ") called the function with constant " + std::to_string((r - 1) / 10));
    int side = -1;
    fcppt::enum_::to_static(e, [&side]<E Value>(std::integral_constant<E, Value>) { side = static_cast<int>(Value); });
    if (side != static_cast<int>(current)) fail("enum::to_static|dispatch-void|" + key, "void overload dispatched to " + std::to_string(side));
  });
}
std::array<char const *, 1> const names1{{"only"}};
std::array<char const *, 3> const names3{{"red", "green", "blue"}};
std::array<char const *, 5> const names5{{"v0", "v1", "v2", "v3", "v4"}};
void enum_dispatch(i64 which, i64 contents, i64 search, i64 current)
{
  u64 const w = static_cast<u64>(which) % 3, c = static_cast<u64>(contents), cu = static_cast<u64>(current);
  int const s = static_cast<int>(static_cast<u64>(search) % 3);
  if (w == 0) enum_one<en1>("en1", names1, c % 3, s, cu);
  else if (w == 1) enum_one<en3>("en3", names3, c % 27, s, cu);
  else enum_one<en5>("en5", names5, c % 243, s, cu);
}
Reg const r_enum{"enum_helpers", Kind::exhaustive, "the searched value is absent, only in the last slot, or the enum has a single enumerator",
                 [] {
                   i64 const sizes[] = {3, 27, 243};
                   i64 const counts[] = {1, 3, 5};
                   for (i64 w = 0; w < 3; ++w)
                     for (i64 c = 0; c < sizes[w]; ++c)
                       for (i64 s = 0; s < 3; ++s)
                         for (i64 e = 0; e < counts[w]; ++e) { cur4(w, c, s, e); enum_dispatch(w, c, s, e); }
                 },
                 [](Ints const &c) { enum_dispatch(c.at(0), c.at(1), c.at(2), c.at(3)); },
                 [](Ints const &c) { return "names / index_of_array / to_static / array_output for the enum with " + std::to_string(static_cast<u64>(c.at(0)) % 3 * 2 + 1) + " enumerators, array contents (base 3) " + std::to_string(c.at(1)) + ", searched value " + std::to_string(static_cast<u64>(c.at(2)) % 3) + ", run-time enumerator " + std::to_string(c.at(3)); }};

// ---------------------------------------------------------------------------- small functional helpers
// Case: a vector of small ints, a flag, two 64-bit words. Oracles straight from the comments:
// move_clear returns the old value and leaves a default-constructed one; copy returns an equal
// value and leaves the source alone; const_(x)() == x; identity returns its argument (same object);
// cond(c, f, g) calls exactly one of f / g; deref reaches the same object through a reference
// wrapper and a unique_ptr; move_if_rvalue<T>(x) moves iff T is not an lvalue reference;
// literal<T>(k) == T(k); do_ on optionals is nothing iff some step is nothing.
FCPPT_MAKE_STRONG_TYPEDEF(int, st_int);
int free_function(int a, int b) { return a * 100 + b; }
struct move_probe
{
  int v{0};
  bool moved_from{false};
  move_probe() = default;
  explicit move_probe(int x) : v(x) {}
  move_probe(move_probe const &o) : v(o.v) {}
  move_probe(move_probe &&o) noexcept : v(o.v) { o.moved_from = true; }
  move_probe &operator=(move_probe const &) = default;
  move_probe &operator=(move_probe &&o) noexcept { v = o.v; moved_from = false; o.moved_from = true; return *this; }
};
void functional_one(Ints const &c)
{
  Choices ch(c);
  std::size_t const n = static_cast<std::size_t>(ch.range(0, 5));
  bool const flag = ch.flag();
  std::vector<int> v;
  for (std::size_t i = 0; i < n; ++i) v.push_back(static_cast<int>(ch.range(-3, 3)));
  u64 const h1 = ch.raw() * 0x9e3779b97f4a7c15ULL, h2 = ch.raw() == 0 ? ~0ULL : ch.raw();
  int const k = static_cast<int>(ch.range(-100, 100));
  count(n <= 1);
  total("move_clear", [&] {
    std::vector<int> src = v;
    std::vector<int> const got = fcppt::move_clear(src);
    if (got != v || !src.empty()) fail("move_clear|vector", "result differs or the source was not cleared (size " + std::to_string(src.size()) + ")");
    std::string str(n, 'x');
    std::string const gs = fcppt::move_clear(str);
    if (gs != std::string(n, 'x') || !str.empty()) fail("move_clear|string", "string not cleared");
    std::unique_ptr<int> up = std::make_unique<int>(k);
    std::unique_ptr<int> const gu = fcppt::move_clear(up);
    if (up != nullptr || gu == nullptr || *gu != k) fail("move_clear|unique_ptr", "pointer not moved");
    std::vector<int> self = v;
    self = fcppt::move_clear(self);
    if (self != v) fail("move_clear|self-assign", "x = move_clear(x) lost the value");
  });
  total("copy/const/identity/cond", [&] {
    std::vector<int> const cp = fcppt::copy(v);
    if (cp != v) fail("copy|value", "copy differs");
    auto const cf = fcppt::const_(std::vector<int>(v));
    if (cf() != v || cf() != v) fail("const_|value", "const_(x)() differs from x");
    fcppt::identity const id{};
    if (&id(v) != &v || id(k + 0) != k) fail("identity|object", "identity does not return its argument");
    int calls_a = 0, calls_b = 0;
    int const r = fcppt::cond(flag, [&] { ++calls_a; return k; }, [&] { ++calls_b; return -k - 1; });
    if (r != (flag ? k : -k - 1) || calls_a != (flag ? 1 : 0) || calls_b != (flag ? 0 : 1)) fail("cond|branch", "cond took the wrong branch or evaluated both");
    auto const ov = fcppt::overload([](bool b) { return b ? 1 : 0; }, [](int i) { return i + 1000; }, [&v](std::string const &s2) { return static_cast<int>(s2.size() + v.size()); });
    if (ov(flag) != (flag ? 1 : 0) || ov(k) != k + 1000 || ov(std::string("ab")) != static_cast<int>(2 + n)) fail("overload|dispatch", "overload called the wrong lambda");
    fcppt::function<int(int, int)> const fn = fcppt::make_function(free_function);
    if (fn(k, 7) != k * 100 + 7) fail("make_function|value", "wrapped function returns something else");
  });
  total("deref", [&] {
    int x = k;
    int const cx = k;
    if (&fcppt::deref(x) != &x || &fcppt::deref(cx) != &cx) fail("deref|plain", "deref of a plain object is not the identity");
    fcppt::reference<int> const rx{x};
    fcppt::reference<int const> const rcx{cx};
    if (&fcppt::deref(rx) != &x || &fcppt::deref(rcx) != &cx) fail("deref|reference", "deref of a reference wrapper does not reach the object");
    fcppt::unique_ptr<int> const up = fcppt::make_unique_ptr<int>(k);
    if (&fcppt::deref(up) != up.get_pointer()) fail("deref|unique_ptr", "deref of a unique_ptr does not reach the pointee");
    fcppt::reference<fcppt::unique_ptr<int> const> const rup{up};
    if (&fcppt::deref(rup) != up.get_pointer()) fail("deref|reference-to-unique_ptr", "nested deref does not reach the pointee");
  });
  total("move_if_rvalue", [&] {
    move_probe a(k), b(k), d(k);
    move_probe const r1(fcppt::move_if_rvalue<move_probe &>(a));
    move_probe const r2(fcppt::move_if_rvalue<move_probe &&>(b));
    move_probe const r3(fcppt::move_if_rvalue<move_probe>(d));
    if (a.moved_from || !b.moved_from || !d.moved_from || r1.v != k || r2.v != k || r3.v != k) fail("move_if_rvalue|moved", "moved for an lvalue type or copied for an rvalue type");
    std::vector<move_probe> src;
    for (int x : v) src.emplace_back(x);
    std::vector<move_probe> const kept(fcppt::move_iterator_if_rvalue<std::vector<move_probe> &>(src.begin()), fcppt::move_iterator_if_rvalue<std::vector<move_probe> &>(src.end()));
    bool any = false;
    for (auto const &e : src) any = any || e.moved_from;
    if (any || kept.size() != n) fail("move_iterator_if_rvalue|lvalue", "elements were moved although the type is an lvalue reference");
    std::vector<move_probe> const taken(fcppt::move_iterator_if_rvalue<std::vector<move_probe>>(src.begin()), fcppt::move_iterator_if_rvalue<std::vector<move_probe>>(src.end()));
    bool all = true;
    for (auto const &e : src) all = all && e.moved_from;
    for (std::size_t i = 0; i < n; ++i) all = all && taken[i].v == v[i];
    if (!all || taken.size() != n) fail("move_iterator_if_rvalue|rvalue", "elements were not moved although the type is an rvalue");
  });
  total("hash_combine/literal", [&] {
    std::size_t const a = fcppt::hash_combine(static_cast<std::size_t>(h1), static_cast<std::size_t>(h2));
    std::size_t const b = fcppt::hash_combine(static_cast<std::size_t>(h1), static_cast<std::size_t>(h2));
    if (a != b) fail("hash_combine|deterministic", "two calls differ");
    touch(fcppt::hash_combine(~std::size_t{0}, ~std::size_t{0}));
    touch(fcppt::hash_combine(0, 0));
    if (fcppt::literal<int>(5) != 5 || fcppt::literal<unsigned>(7) != 7U || fcppt::literal<double>(3) != 3.0 || fcppt::literal<float>(2.5F) != 2.5F || fcppt::literal<long long>(-9) != -9LL || fcppt::literal<st_int>(4).get() != 4 || fcppt::literal<unsigned char>(255) != 255 || fcppt::literal<std::int8_t>(-128) != -128)
      fail("literal|value", "literal<T>(k) != T(k)");
  });
  total("monad::do_", [&] {
    // o1 = v[0] if present, o2 = v[1] if present and non-negative; result = o1*10+o2
    fcppt::optional::object<int> const o1 = n >= 1 ? fcppt::optional::object<int>{v[0]} : fcppt::optional::object<int>{};
    int steps = 0;
    auto const r = fcppt::monad::do_(
        o1,
        [&](int const &) { ++steps; return (n >= 2 && v[1] >= 0) ? fcppt::optional::object<int>{v[1]} : fcppt::optional::object<int>{}; },
        [&](int const &a, int const &b) { ++steps; return fcppt::optional::make(a * 10 + b); });
    bool const want = n >= 2 && v[1] >= 0;
    if (r.has_value() != want) fail("monad::do_|optional-presence", "do_ has the wrong presence");
    else if (want && r.get_unsafe() != v[0] * 10 + v[1]) fail("monad::do_|optional-value", "do_ computed " + std::to_string(r.get_unsafe()));
    if (steps != (n == 0 ? 0 : (want ? 2 : 1))) fail("monad::do_|steps", "a step after a failing one was evaluated (" + std::to_string(steps) + " steps)");
    using ei = fcppt::either::object<std::string, int>;
    auto const re = fcppt::monad::do_(
        flag ? ei{k} : ei{std::string("first")},
        [&](int const &a) { return a >= 0 ? ei{a + 1} : ei{std::string("negative")}; });
    if (re.has_success() != (flag && k >= 0)) fail("monad::do_|either-presence", "do_ over either has the wrong side");
    else if (re.has_success() ? re.get_success_unsafe() != k + 1 : re.get_failure_unsafe() != (flag ? "negative" : "first")) fail("monad::do_|either-value", "wrong success or not the first failure");
  });
}
Reg const r_functional{"functional_helpers", Kind::random, "the sequence is empty or has one element (do_ stops early, move_clear of an empty container)",
                       [] { run_random(*g_cur.sec, {1500, 4}, {20000, 4}); },
                       functional_one,
                       [](Ints const &c) { Choices ch(c); std::string r = "move_clear/copy/const_/identity/cond/overload/make_function/deref/move_if_rvalue/move_iterator_if_rvalue/hash_combine/literal/do_ with sequence length " + std::to_string(ch.range(0, 5)) + ", flag " + std::to_string(ch.flag()) + ", values"; for (int i = 0; i < 5; ++i) r += " " + std::to_string(ch.range(-3, 3)); return r; }};

// ---------------------------------------------------------------------------- range helpers
// Case: (container kind, size 0..4, sub-range [i,j)). Oracles: empty iff begin == end, singular iff
// exactly one element, from_pair(p) enumerates [p.first, p.second), range == range iff both ends equal.
template <typename C>
void range_checks(C &cont, std::size_t i, std::size_t j, char const *cn)
{
  std::string const key = cn;
  std::size_t const n = static_cast<std::size_t>(std::distance(cont.begin(), cont.end()));
  if (fcppt::range::empty(cont) != (n == 0)) fail("range::empty|value|" + key, "empty() wrong for size " + std::to_string(n));
  if (fcppt::range::singular(cont) != (n == 1)) fail("range::singular|value|" + key, "singular() wrong for size " + std::to_string(n));
  if (fcppt::range::begin(cont) != cont.begin() || fcppt::range::end(cont) != cont.end()) fail("range::begin/end|value|" + key, "begin/end differ from the members");
  C const &cc = cont;
  if (fcppt::range::begin(cc) != cc.begin() || fcppt::range::end(cc) != cc.end()) fail("range::begin/end|const|" + key, "begin/end differ from the members");
  if (fcppt::range::size(cont) != n) fail("range::size|value|" + key, "size wrong");
  auto const bi = std::next(cc.begin(), static_cast<std::ptrdiff_t>(i)), bj = std::next(cc.begin(), static_cast<std::ptrdiff_t>(j));
  auto const sub = fcppt::range::from_pair(std::make_pair(bi, bj));
  if (sub.begin() != bi || sub.end() != bj) fail("range::from_pair|ends|" + key, "from_pair does not keep the iterators");
  if (fcppt::range::empty(sub) != (i == j) || fcppt::range::singular(sub) != (j - i == 1) || fcppt::range::size(sub) != j - i) fail("range::from_pair|sub-range|" + key, "empty/singular/size wrong on the sub-range [" + std::to_string(i) + "," + std::to_string(j) + ")");
  std::size_t cnt = 0;
  for (auto const &e : sub) { touch(e); ++cnt; }
  if (cnt != j - i) fail("range::from_pair|enumeration|" + key, "wrong number of elements");
  using range_t = fcppt::iterator::range<typename C::const_iterator>;
  range_t const whole{cc.begin(), cc.end()};
  bool const same = i == 0 && j == n;
  if ((sub == whole) != same || (sub != whole) == same || !(sub == sub) || (whole != whole)) fail("iterator::range_comparison|value|" + key, "== / != wrong for [" + std::to_string(i) + "," + std::to_string(j) + ") against the whole range of size " + std::to_string(n));
}
void ranges_one(std::size_t kind, std::size_t n, std::size_t i, std::size_t j)
{
  kind %= 5; n %= 5; i %= n + 1; j %= n + 1;
  if (i > j) std::swap(i, j);
  count(n <= 1 || i == j || j - i == 1);
  total("range::*", [&] {
    switch (kind)
    {
    case 0: { std::vector<int> c; for (std::size_t k = 0; k < n; ++k) c.push_back(static_cast<int>(k)); range_checks(c, i, j, "vector"); break; }
    case 1: { std::list<int> c; for (std::size_t k = 0; k < n; ++k) c.push_back(static_cast<int>(k)); range_checks(c, i, j, "list"); break; }
    case 2: { std::set<int> c; for (std::size_t k = 0; k < n; ++k) c.insert(static_cast<int>(k)); range_checks(c, i, j, "set"); break; }
    case 3: { std::string c(n, 'q'); range_checks(c, i, j, "string"); break; }
    default:
    {
      std::multimap<int, int> c;
      for (std::size_t k = 0; k < n; ++k) c.emplace(static_cast<int>(k / 2), static_cast<int>(k));
      range_checks(c, i, j, "multimap");
      // the documented use: equal_range
      for (int key = 0; key < 3; ++key)
      {
        auto const r = fcppt::range::from_pair(c.equal_range(key));
        std::size_t cnt = 0;
        for (auto const &e : r) { if (e.first != key) fail("range::from_pair|equal_range", "foreign key in the range"); ++cnt; }
        if (cnt != c.count(key) || fcppt::range::empty(r) != (cnt == 0) || fcppt::range::singular(r) != (cnt == 1)) fail("range::from_pair|equal_range-count", "wrong element count for key " + std::to_string(key));
      }
      break;
    }
    }
  });
}
Reg const r_ranges{"range_helpers", Kind::exhaustive, "the container or the sub-range is empty or has exactly one element",
                   [] { for (i64 k = 0; k < 5; ++k) for (i64 n = 0; n < 5; ++n) for (i64 i = 0; i <= n; ++i) for (i64 j = i; j <= n; ++j) { cur4(k, n, i, j); ranges_one(static_cast<std::size_t>(k), static_cast<std::size_t>(n), static_cast<std::size_t>(i), static_cast<std::size_t>(j)); } },
                   [](Ints const &c) { ranges_one(static_cast<std::size_t>(c.at(0)), static_cast<std::size_t>(c.at(1)), static_cast<std::size_t>(c.at(2)), static_cast<std::size_t>(c.at(3))); },
                   [](Ints const &c) { static char const *const kn[] = {"vector", "list", "set", "string", "multimap"}; return std::string("range::empty/singular/begin/end/size/from_pair and range comparison on a ") + kn[static_cast<u64>(c.at(0)) % 5] + " of size " + std::to_string(static_cast<u64>(c.at(1)) % 5) + ", sub-range indices " + std::to_string(c.at(2)) + ".." + std::to_string(c.at(3)); }};

// ---------------------------------------------------------------------------- record / tuple / variant helpers
FCPPT_RECORD_MAKE_LABEL(int_label);
FCPPT_RECORD_MAKE_LABEL(str_label);
FCPPT_RECORD_MAKE_LABEL(flag_label);
using rec_l = fcppt::record::object<fcppt::record::element<int_label, int>, fcppt::record::element<str_label, std::string>>;
using rec_r = fcppt::record::object<fcppt::record::element<flag_label, bool>>;
using rec_prod = fcppt::record::disjoint_product<rec_l, rec_r>;
using rec_opt = fcppt::record::map_elements<rec_l, fcppt::mpl::bind<fcppt::mpl::lambda<fcppt::optional::object>, fcppt::mpl::bind<fcppt::mpl::lambda<fcppt::record::element_to_type>, fcppt::mpl::arg<1>>>>;
C01_FACT(std::is_same_v<fcppt::record::label_value_type<rec_prod, flag_label>, bool> && std::is_same_v<fcppt::record::label_value_type<rec_prod, str_label>, std::string>);
C01_FACT(std::is_same_v<fcppt::record::label_value_type<rec_opt, int_label>, fcppt::optional::object<int>>);
C01_FACT(std::is_same_v<fcppt::record::from_list<fcppt::mpl::list::object<fcppt::record::element<flag_label, bool>>>, rec_r>);
using var3 = fcppt::variant::object<int, std::string, bool>;
C01_FACT(std::is_same_v<fcppt::variant::from_list<fcppt::mpl::list::object<int, std::string, bool>>, var3>);
C01_FACT(fcppt::variant::has_type<var3, bool>::value && !fcppt::variant::has_type<var3, char>::value);
C01_FACT(std::is_same_v<fcppt::tuple::element<1, fcppt::tuple::object<int, std::string, bool>>, std::string>);

void rtv_one(int k, std::size_t len, std::size_t alt)
{
  alt %= 3;
  len %= 4;
  count(len == 0 || alt == 2);
  std::string const str(len, 's');
  total("record::*", [&] {
    rec_prod const p{int_label{} = k, str_label{} = std::string(str), flag_label{} = (k % 2 == 0)};
    if (fcppt::record::get<int_label>(p) != k || fcppt::record::get<str_label>(p) != str || fcppt::record::get<flag_label>(p) != (k % 2 == 0)) fail("record::disjoint_product|value", "an element of the product record has the wrong value");
    rec_opt const o{int_label{} = fcppt::optional::object<int>{k}, str_label{} = fcppt::optional::object<std::string>{}};
    if (!fcppt::record::get<int_label>(o).has_value() || fcppt::record::get<str_label>(o).has_value()) fail("record::map_elements|value", "mapped record elements wrong");
    std::string const n1 = fcppt::record::label_name<int_label>(), n2 = fcppt::record::label_name<str_label>();
    if (n1.empty() || n1 == n2 || n1.find("int_label") == std::string::npos) fail("record::label_name|value", "label_name<int_label>() = " + n1);
  });
  total("tuple::*", [&] {
    // (tuple::apply does not compile with lvalue tuples - apply_result takes tuple::size of a reference type;
    // compile-time-only defect - so the tuples are passed as rvalues)
    using t3 = fcppt::tuple::object<int, std::string, bool>;
    auto const sum = fcppt::tuple::apply(fcppt::overload([](int a, int b) { return a + b; }, [](std::string const &a, std::string const &b) { return a + b; }, [](bool a, bool b) { return a != b; }), t3{k, std::string(str), true}, t3{1, std::string("!"), false});
    if (fcppt::tuple::get<0>(sum) != k + 1 || fcppt::tuple::get<1>(sum) != str + "!" || !fcppt::tuple::get<2>(sum)) fail("tuple::apply|value", "element-wise application wrong");
    // (with one tuple - or three - tuple::apply does not compile either: std::is_same_v<Sizes...> needs exactly two; compile-time-only)
    auto const taken = fcppt::tuple::apply([](std::string const &a, int b) { return a + std::to_string(b); }, fcppt::tuple::make(std::string(str)), fcppt::tuple::make(k));
    if (fcppt::tuple::get<0>(taken) != str + std::to_string(k)) fail("tuple::apply|rvalue", "rvalue element lost");
    auto const none = fcppt::tuple::apply([] { return 1; }, fcppt::tuple::object<>{}, fcppt::tuple::object<>{});
    touch(none);
    fcppt::array::object<int, 3> const arr{k, k + 1, k + 2};
    auto const ft = fcppt::tuple::from_array(arr);
    if (fcppt::tuple::get<0>(ft) != k || fcppt::tuple::get<1>(ft) != k + 1 || fcppt::tuple::get<2>(ft) != k + 2) fail("tuple::from_array|value", "elements differ");
    auto const fs = fcppt::tuple::from_array(fcppt::array::object<std::string, 2>{std::string(str), std::string("z")});
    if (fcppt::tuple::get<0>(fs) != str || fcppt::tuple::get<1>(fs) != "z") fail("tuple::from_array|rvalue", "elements differ");
    auto const f0 = fcppt::tuple::from_array(fcppt::array::object<int, 0>{});
    touch(f0);
  });
  total("variant::*", [&] {
    var3 const v = alt == 0 ? var3{k} : (alt == 1 ? var3{std::string(str)} : var3{k % 2 == 0});
    std::type_info const &ti = fcppt::variant::type_info(v);
    std::type_info const &want = alt == 0 ? typeid(int) : (alt == 1 ? typeid(std::string) : typeid(bool));
    if (ti != want) fail("variant::type_info|value", std::string("type_info names ") + ti.name());
    std::string const name = fcppt::variant::current_type_name(v);
    char const *const needle = alt == 0 ? "int" : (alt == 1 ? "basic_string" : "bool");
    if (name.find(needle) == std::string::npos) fail("variant::current_type_name|value", "current_type_name = " + name);
  });
}
Reg const r_rtv{"record_tuple_variant_helpers", Kind::exhaustive, "the string element is empty or the variant holds its last alternative",
                [] { for (i64 k = -2; k <= 2; ++k) for (i64 l = 0; l < 4; ++l) for (i64 a = 0; a < 3; ++a) { cur3(k, l, a); rtv_one(static_cast<int>(k), static_cast<std::size_t>(l), static_cast<std::size_t>(a)); } },
                [](Ints const &c) { rtv_one(static_cast<int>(c.at(0) % 1000), static_cast<std::size_t>(c.at(1)), static_cast<std::size_t>(c.at(2))); },
                [](Ints const &c) { return "record disjoint_product/map_elements/label_name, tuple apply/from_array, variant type_info/current_type_name with int " + std::to_string(c.at(0) % 1000) + ", string length " + std::to_string(static_cast<u64>(c.at(1)) % 4) + ", alternative " + std::to_string(static_cast<u64>(c.at(2)) % 3); }};

// ---------------------------------------------------------------------------- type_name, getenv
char const mangle_alphabet[] = {'_', 'Z', 'N', 'S', 't', 'E', 'i', 'v', 'P', 'K', '1', '3', '9', '0', 'a', 'I', 'T', '_', 'L', 'x', ' ', '\xff', '=', 'V', 'C'};
std::string decode_name(Ints const &c, std::size_t from, std::size_t maxlen)
{
  std::string s;
  std::size_t const len = c.size() <= from ? 0 : static_cast<std::size_t>(static_cast<u64>(c[from]) % (maxlen + 1)); // frames are 4 words: the length is a word of its own
  for (std::size_t i = from + 1; i < c.size() && s.size() < len; ++i)
  {
    u64 const x = static_cast<u64>(c[i]);
    if (x % 37 == 36) s.push_back('\0');
    else s.push_back(mangle_alphabet[x % sizeof mangle_alphabet]);
  }
  return s;
}
std::string const env_names[] = {"VERIF_C01_SET", "VERIF_C01_EMPTY", "VERIF_C01_UNSET", "", "=", "VERIF_C01_SET=", "VERIF_C01_SE", "VERIF_C01_SETT", std::string("VERIF_C01_SET\0tail", 18), std::string("VERIF_C01_EMPTY\0", 16)};
void names_one(Ints const &c)
{
  Choices ch(c);
  std::size_t const mode = ch.index(4);
  std::size_t const pick = ch.index(sizeof env_names / sizeof env_names[0]);
  std::string const raw = decode_name(c, 2, 24);
  count(raw.empty() || raw.find('\0') != std::string::npos || mode == 3);
  ::setenv("VERIF_C01_SET", "some value", 1);
  ::setenv("VERIF_C01_EMPTY", "", 1);
  ::unsetenv("VERIF_C01_UNSET");
  if (mode <= 1)
  {
    // Reading: type_name takes a C string (the result of type_info::name()); the generated bytes up to
    // the first NUL are passed over an exact-size heap copy. "Returns a demangled type name if
    // possible": the reference is abi::__cxa_demangle, the input itself where that reports failure.
    std::string const name = raw.substr(0, raw.find('\0'));
    std::string const full = mode == 0 ? "_Z" + name : name;
    std::unique_ptr<char[]> exact(new char[full.size() + 1]);
    std::copy(full.begin(), full.end(), exact.get());
    exact[full.size()] = '\0';
    total("type_name", [&] {
      std::string const r = fcppt::type_name(exact.get());
      int status = 0;
      char *const d = abi::__cxa_demangle(exact.get(), nullptr, nullptr, &status);
      std::string const want = (status == 0 && d != nullptr) ? std::string(d) : full;
      std::free(d);
      if (r != want) fail("type_name|value", "type_name(" + show_string(full) + ") = " + show_string(r) + ", expected " + show_string(want));
    });
  }
  else if (mode == 2)
  {
    total("type_name_from_info", [&] {
      struct local_type {};
      if (fcppt::type_name_from_info(typeid(int)) != "int" || fcppt::type_name_from_index(std::type_index(typeid(unsigned long))) != "unsigned long" || fcppt::type_name_from_info(typeid(std::vector<int>)).find("vector<int") == std::string::npos || fcppt::type_name_from_info(typeid(local_type)).find("local_type") == std::string::npos || fcppt::type_name_from_index(typeid(da)).find("da") == std::string::npos)
        fail("type_name_from_info|value", "a well known type has an unexpected name: " + fcppt::type_name_from_info(typeid(std::vector<int>)));
      base_l const &poly = dab();
      if (fcppt::type_name_from_info(typeid(poly)).find("dab") == std::string::npos) fail("type_name_from_info|dynamic-type", "typeid of a polymorphic object");
    });
  }
  else
  {
    // getenv: the reference is std::getenv. Reading: a name with an embedded NUL or '=' can not name a
    // variable (POSIX), so nothing must be found for it.
    std::string const name = ch.flag() ? env_names[pick] : (ch.flag() ? env_names[pick] + raw : raw);
    if (name.find('\0') != std::string::npos) { skip(); return; } // embedded NUL: section getenv_embedded_nul
    std::unique_ptr<char[]> exact(new char[name.size() == 0 ? 1 : name.size()]);
    std::copy(name.begin(), name.end(), exact.get());
    std::string_view const view(exact.get(), name.size());
    total("getenv", [&] {
      fcppt::optional_std_string const r = fcppt::getenv(view);
      bool const nameable = name.find('\0') == std::string::npos && name.find('=') == std::string::npos && !name.empty();
      char const *const ref = nameable ? std::getenv(name.c_str()) : nullptr;
      if (r.has_value() != (ref != nullptr))
        fail("getenv|presence|plain", "getenv(" + show_string(name) + ") is " + (r.has_value() ? "present: " + show_string(r.get_unsafe()) : std::string("absent")) + ", the environment has " + (ref != nullptr ? "a" : "no") + " variable of this name");
      else if (ref != nullptr && r.get_unsafe() != ref) fail("getenv|value", "getenv(" + show_string(name) + ") = " + show_string(r.get_unsafe()));
    });
  }
}
Reg const r_names{"type_name_getenv", Kind::random, "the name is empty or contains a NUL byte, or the case reads the environment",
                  [] { run_random(*g_cur.sec, {3000, 8}, {40000, 8}); },
                  names_one,
                  [](Ints const &c) { Choices ch(c); std::size_t const m = ch.index(4); std::size_t const pick = ch.index(sizeof env_names / sizeof env_names[0]); return std::string(m <= 1 ? "type_name" : (m == 2 ? "type_name_from_info/index on fixed types" : "getenv")) + " with generated name " + show_string(decode_name(c, 2, 24)) + (m == 0 ? " prefixed by _Z" : "") + (m == 3 ? " (possibly replaced by / appended to " + show_string(env_names[pick]) + ")" : ""); }};

// getenv with a name that has an embedded NUL byte (kept in a section of its own so that a failure
// here does not end the random section above). Reading: the parameter is a string_view, so any byte
// sequence is a legal argument; no environment variable can have such a name, so the documented
// result ("an optional value from the environment") would be the empty optional; see below.
void getenv_nul_one(std::size_t pick, std::size_t tail)
{
  static std::string const bases[] = {"VERIF_C01_SET", "VERIF_C01_EMPTY", "VERIF_C01_UNSET", "", "PATH"};
  static std::string const tails[] = {std::string("\0", 1), std::string("\0tail", 5), std::string("\0=x", 3)};
  pick %= 5; tail %= 3;
  count(true);
  ::setenv("VERIF_C01_SET", "some value", 1);
  ::setenv("VERIF_C01_EMPTY", "", 1);
  ::unsetenv("VERIF_C01_UNSET");
  std::string const name = bases[pick] + tails[tail];
  std::unique_ptr<char[]> exact(new char[name.size()]);
  std::copy(name.begin(), name.end(), exact.get());
  total("getenv", [&] {
    fcppt::optional_std_string const r = fcppt::getenv(std::string_view(exact.get(), name.size()));
    // Only totality is demanded (C01). Observation, not a violation of C01: the name is truncated at
    // the NUL (std::string{name}.c_str()), so getenv("VERIF_C01_SET\0tail") returns the value of
    // VERIF_C01_SET although no variable can have that name - a wrong answer, but no UB, no
    // exception and no hang (DESIGN.md 9.4).
    touch(r.has_value());
  });
}
Reg const r_getenv_nul{"getenv_embedded_nul", Kind::exhaustive, "every case: the name contains a NUL byte",
                       [] { for (i64 p = 0; p < 5; ++p) for (i64 t = 0; t < 3; ++t) { cur2(p, t); getenv_nul_one(static_cast<std::size_t>(p), static_cast<std::size_t>(t)); } },
                       [](Ints const &c) { getenv_nul_one(static_cast<std::size_t>(c.at(0)), static_cast<std::size_t>(c.at(1))); },
                       [](Ints const &c) { static char const *const b[] = {"VERIF_C01_SET (set)", "VERIF_C01_EMPTY (set, empty)", "VERIF_C01_UNSET (unset)", "the empty name", "PATH"}; static char const *const t[] = {"\\0", "\\0tail", "\\0=x"}; return std::string("getenv of ") + b[static_cast<u64>(c.at(0)) % 5] + " followed by " + t[static_cast<u64>(c.at(1)) % 3]; }};

// ---------------------------------------------------------------------------- error strings, error codes
// Oracles: strerror(e) is "a wrapper around std::strerror": the same text; strerrno() the same for
// errno; error_code_to_string(ec) the text of ec.message(); make_optional_error_code(ec): "If error has
// an error value, then it is returned. Otherwise, the empty optional is returned."
// Reading: an std::error_code "has an error value" iff its value() is non-zero (explicit operator bool).
std::error_category const &category_of(std::size_t i)
{
  switch (i % 4)
  {
  case 0: return std::system_category();
  case 1: return std::generic_category();
  case 2: return std::iostream_category();
  default: return std::future_category();
  }
}
void errors_one(int value, std::size_t cat)
{
  cat %= 4;
  count(value == 0 || on_lattice<int>(value));
  total("error::strerror", [&] {
    fcppt::string const r = fcppt::error::strerror(value);
    std::string const want = std::strerror(value);
    if (r != want) fail("error::strerror|value", "strerror(" + std::to_string(value) + ") = " + show_string(r) + ", std::strerror gives " + show_string(want));
    errno = value;
    fcppt::string const r2 = fcppt::error::strerrno();
    if (r2 != want) fail("error::strerrno|value", "strerrno() with errno " + std::to_string(value) + " = " + show_string(r2));
    errno = 0;
  });
  total("error_code_to_string", [&] {
    std::error_code const ec(value, category_of(cat));
    fcppt::string const r = fcppt::error_code_to_string(ec);
    if (r != ec.message()) fail("error_code_to_string|value", "differs from message(): " + show_string(r));
  });
  total("make_optional_error_code", [&] {
    std::error_code const ec(value, category_of(cat));
    fcppt::optional_error_code const r = fcppt::make_optional_error_code(ec);
    bool const has_error = static_cast<bool>(ec); // value() != 0
    // value 0 in a category other than the system category: "has no error value" by
    // static_cast<bool>(ec), yet the implementation compares with std::error_code{} (system
    // category) and returns it. A value mismatch against the wording of the comment, but not a
    // totality question: not demanded under C01 (DESIGN.md 9.4).
    if (value == 0 && cat != 0) return;
    if (r.has_value() != has_error)
      fail(std::string("make_optional_error_code|presence|") + (value != 0 ? "error-value" : (cat == 0 ? "default-code" : "zero-value-other-category")), std::string("error_code(") + std::to_string(value) + ", " + ec.category().name() + ") " + (has_error ? "has" : "has no") + " error value but the result is " + (r.has_value() ? "present" : "empty"));
    else if (r.has_value() && r.get_unsafe() != ec) fail("make_optional_error_code|value", "a different code was returned");
  });
}
// ---------------------------------------------------------------------------- endianness::reverse_mem
// "Reverses the byte order of the memory pointed to by data and the size of size": any block is a
// legal argument, the empty one included (exact-size heap blocks: touching a byte outside is an
// ASan report; a walk that never ends is caught by the watchdog).
void reverse_mem_one(std::size_t len, unsigned seedbyte)
{
  count(len <= 1);
  std::unique_ptr<fcppt::endianness::raw_value[]> block(new fcppt::endianness::raw_value[len]);
  for (std::size_t i = 0; i < len; ++i) block[i] = static_cast<fcppt::endianness::raw_value>(seedbyte + 3 * i);
  total("endianness::reverse_mem", [&] {
    fcppt::endianness::reverse_mem(block.get(), len);
    for (std::size_t i = 0; i < len; ++i)
      if (block[i] != static_cast<fcppt::endianness::raw_value>(seedbyte + 3 * (len - 1 - i))) { fail("endianness::reverse_mem|value", "block of length " + std::to_string(len) + " is not reversed"); break; }
  });
}
Reg const r_reverse_mem{"endianness_reverse_mem", Kind::exhaustive, "the block has 0 or 1 bytes",
                        [] { for (i64 len = 0; len <= 17; ++len) for (i64 b : {0LL, 0x7fLL, 0xf0LL}) { cur2(len, b); reverse_mem_one(static_cast<std::size_t>(len), static_cast<unsigned>(b)); } },
                        [](Ints const &c) { reverse_mem_one(static_cast<std::size_t>(static_cast<u64>(c.at(0)) % 18), static_cast<unsigned>(c.at(1)) & 0xffU); },
                        [](Ints const &c) { return "endianness::reverse_mem on an exact-size heap block of " + std::to_string(static_cast<u64>(c.at(0)) % 18) + " bytes"; }};

Reg const r_errors{"error_strings_codes", Kind::exhaustive, "the error value is 0 or lies on the int boundary lattice",
                   [] {
                     std::vector<int> vals = lattice<int>();
                     for (int e = 3; e <= 140; ++e) vals.push_back(e);
                     for (int v : vals) for (i64 cat = 0; cat < 4; ++cat) { cur2(v, cat); errors_one(v, static_cast<std::size_t>(cat)); }
                   },
                   [](Ints const &c) { errors_one(static_cast<int>(c.at(0)), static_cast<std::size_t>(c.at(1))); },
                   [](Ints const &c) { return "strerror / strerrno / error_code_to_string / make_optional_error_code with value " + std::to_string(static_cast<int>(c.at(0))) + " in " + category_of(static_cast<std::size_t>(c.at(1))).name() + " category"; }};

// ---------------------------------------------------------------------------- time
// gmtime/localtime are documented to throw std::runtime_error on failure (whitelisted). Where they
// return, the reference is the proleptic Gregorian calendar computed with plain integer arithmetic
// (TZ is set to UTC, so localtime must agree with gmtime). output_tm is documented to use the stream's
// std::time_put facet with format 'c': in the classic locale that is strftime("%c").
struct civil { i64 y; int mon, mday, hour, min, sec, wday, yday; };
civil civil_from_time(i64 t)
{
  i64 days = t / 86400, rem = t % 86400;
  if (rem < 0) { rem += 86400; --days; }
  civil c{};
  c.hour = static_cast<int>(rem / 3600); c.min = static_cast<int>(rem % 3600 / 60); c.sec = static_cast<int>(rem % 60);
  i64 w = (days + 4) % 7; if (w < 0) w += 7;
  c.wday = static_cast<int>(w);
  // days since 1970-01-01 -> y/m/d by walking 400-year cycles then years and months
  i64 const cycle = 146097;
  i64 cycles = days / cycle; i64 d = days % cycle; if (d < 0) { d += cycle; --cycles; }
  i64 y = 1970 + cycles * 400;
  auto leap = [](i64 yy) { return (yy % 4 == 0 && yy % 100 != 0) || yy % 400 == 0; };
  for (;;) { i64 const len = leap(y) ? 366 : 365; if (d < len) break; d -= len; ++y; }
  c.y = y; c.yday = static_cast<int>(d);
  int const ml[] = {31, leap(y) ? 29 : 28, 31, 30, 31, 30, 31, 31, 30, 31, 30, 31};
  int m = 0; while (d >= ml[m]) { d -= ml[m]; ++m; }
  c.mon = m; c.mday = static_cast<int>(d) + 1;
  return c;
}
void time_one(i64 t)
{
  count(on_lattice<i64>(t));
  ::setenv("TZ", "UTC0", 1);
  ::tzset();
  bool const moderate = t > -60000000000000LL && t < 60000000000000LL; // |year| < ~1.9 million: the reference loop is cheap and the year fits
  for (int which = 0; which < 2; ++which)
  {
    char const *const fn = which == 0 ? "time::gmtime" : "time::localtime";
    total<std::runtime_error>(fn, [&] {
      std::tm const r = which == 0 ? fcppt::time::gmtime(static_cast<std::time_t>(t)) : fcppt::time::localtime(static_cast<std::time_t>(t));
      touch(r.tm_sec + r.tm_min + r.tm_hour + r.tm_mday + r.tm_mon + r.tm_year + r.tm_wday + r.tm_yday);
      if (moderate)
      {
        civil const c = civil_from_time(t);
        if (r.tm_sec != c.sec || r.tm_min != c.min || r.tm_hour != c.hour || r.tm_mday != c.mday || r.tm_mon != c.mon || static_cast<i64>(r.tm_year) + 1900 != c.y || r.tm_wday != c.wday || r.tm_yday != c.yday)
          fail(std::string(fn) + "|calendar", std::string(fn) + "(" + std::to_string(t) + ") = " + std::to_string(r.tm_year + 1900LL) + "-" + std::to_string(r.tm_mon + 1) + "-" + std::to_string(r.tm_mday) + " " + std::to_string(r.tm_hour) + ":" + std::to_string(r.tm_min) + ":" + std::to_string(r.tm_sec) + ", reference year " + std::to_string(c.y) + " month " + std::to_string(c.mon + 1) + " day " + std::to_string(c.mday));
      }
      // output_tm on the result
      std::ostringstream os;
      os.imbue(std::locale::classic());
      fcppt::time::output_tm(os, r);
      if (!os.good()) fail("time::output_tm|stream-state", "the stream is not good after output_tm for time " + std::to_string(t));
      char buf[256];
      std::size_t const len = std::strftime(buf, sizeof buf, "%c", &r);
      if (len != 0 && os.str() != std::string(buf, len)) fail("time::output_tm|form", "printed " + show_string(os.str()) + ", strftime(%c) gives " + show_string(std::string(buf, len)));
      std::wostringstream wos;
      wos.imbue(std::locale::classic());
      fcppt::time::output_tm(wos, r);
      if (!wos.good() || (len != 0 && wos.str() != std::wstring(buf, buf + len))) fail("time::output_tm|wide", "wide output differs from the narrow one");
      std::ostringstream bad;
      bad.setstate(std::ios_base::badbit);
      fcppt::time::output_tm(bad, r);
      if (!bad.str().empty()) fail("time::output_tm|bad-stream", "wrote to a stream whose sentry fails");
    });
  }
}
Reg const r_time{"time_wrappers", Kind::random, "the time lies on the 64-bit boundary lattice",
                 [] {
                   for (i64 t : lattice<i64>()) { cur1(t); time_one(t); }
                   SplitMix rng(opts().seed ^ 0x7171);
                   std::size_t const n = opts().thorough() ? 30000 : 1500;
                   for (std::size_t i = 0; i < n; ++i) { i64 const t = static_cast<i64>(rng.next()) >> (rng.next() % 48); cur1(t); time_one(t); }
                   // std_time: between two readings of the C clock
                   cur1(0);
                   total<std::runtime_error>("time::std_time", [] {
                     std::time_t const before = std::time(nullptr);
                     std::time_t const got = fcppt::time::std_time();
                     std::time_t const after = std::time(nullptr);
                     if (got < before || got > after) fail("time::std_time|value", "not between two calls of std::time");
                   });
                 },
                 [](Ints const &c) { time_one(c.at(0)); },
                 [](Ints const &c) { return "gmtime / localtime (TZ=UTC) / output_tm for time_t " + std::to_string(c.at(0)); }};

// ---------------------------------------------------------------------------- exception, version_string, format, signal container, scoped_state_machine
struct sm_state;
struct sm_machine : boost::statechart::state_machine<sm_machine, sm_state> {};
struct sm_state : boost::statechart::simple_state<sm_state, sm_machine> {};

void various_one(std::size_t n, u64 mask, int k)
{
  n %= 6;
  count(n <= 1 || mask == 0);
  total("exception", [&] {
    fcppt::string const msg(n, FCPPT_TEXT('m'));
    fcppt::exception const e{fcppt::string(msg)};
    fcppt::exception cp(e);
    fcppt::exception mv(std::move(cp));
    fcppt::exception as{fcppt::string(FCPPT_TEXT("other"))};
    as = e;
    fcppt::exception as2{fcppt::string()};
    as2 = std::move(as);
    if (e.string() != msg || mv.string() != msg || as2.string() != msg) fail("exception|string", "the message is not preserved by copy/move");
    if (e.what() == nullptr || std::strlen(e.what()) == 0) fail("exception|what", "what() returns nothing printable");
    try { throw fcppt::exception(fcppt::string(msg)); }
    catch (std::exception const &caught) { touch(std::string(caught.what())); }
  });
  total("version_string", [&] {
    std::string const want = std::to_string(FCPPT_VERSION / 1000000UL) + "." + std::to_string(FCPPT_VERSION / 1000UL % 1000UL) + "." + std::to_string(FCPPT_VERSION % 1000UL);
    if (fcppt::version_string() != want) fail("version_string|value", "version_string() = " + fcppt::version_string() + ", FCPPT_VERSION says " + want);
  });
  total("format", [&] {
    fcppt::string const r = (fcppt::format(FCPPT_TEXT("%1%|%2%|%1%")) % k % fcppt::string(n, FCPPT_TEXT('f'))).str();
    if (r != std::to_string(k) + "|" + std::string(n, 'f') + "|" + std::to_string(k)) fail("format|value", "formatted " + r);
  });
  total("signal::auto_connection_container", [&] {
    using signal_type = fcppt::signal::object<void()>;
    signal_type sig{};
    int calls = 0;
    fcppt::signal::auto_connection_container cons;
    for (std::size_t i = 0; i < n; ++i) cons.push_back(sig.connect(signal_type::function{[&calls] { ++calls; }}));
    sig();
    if (calls != static_cast<int>(n)) fail("signal::auto_connection_container|connected", "not every stored connection is live");
    // drop the connections selected by the mask
    fcppt::signal::auto_connection_container kept;
    std::size_t live = 0;
    for (std::size_t i = 0; i < n; ++i) if ((mask >> i) & 1U) { kept.push_back(std::move(cons[i])); ++live; }
    cons.clear();
    calls = 0;
    sig();
    if (calls != static_cast<int>(live)) fail("signal::auto_connection_container|after-clear", std::to_string(calls) + " calls, " + std::to_string(live) + " connections kept");
    kept.clear();
    calls = 0;
    sig();
    if (calls != 0 || !sig.empty()) fail("signal::auto_connection_container|empty", "a destroyed connection is still called");
  });
  total("scoped_state_machine", [&] {
    sm_machine m;
    if (!m.terminated()) fail("scoped_state_machine|initial", "fresh machine not terminated");
    {
      fcppt::scoped_state_machine<sm_machine> const scoped(m);
      if (m.terminated()) fail("scoped_state_machine|initiate", "the constructor did not initiate the machine");
    }
    if (!m.terminated()) fail("scoped_state_machine|terminate", "the destructor did not terminate the machine");
  });
}
Reg const r_various{"exception_version_format_signal_statemachine", Kind::exhaustive, "zero or one connection / empty message, or every connection dropped",
                    [] { for (i64 n = 0; n < 6; ++n) for (i64 m = 0; m < (1 << n); ++m) { cur3(n, m, n - 2); various_one(static_cast<std::size_t>(n), static_cast<u64>(m), static_cast<int>(n - 2)); } },
                    [](Ints const &c) { various_one(static_cast<std::size_t>(c.at(0)), static_cast<u64>(c.at(1)), static_cast<int>(c.at(2) % 100000)); },
                    [](Ints const &c) { return "exception (message length n), version_string, format, auto_connection_container (n connections, keep mask), scoped_state_machine with n = " + std::to_string(static_cast<u64>(c.at(0)) % 6) + ", mask " + std::to_string(c.at(1)) + ", int " + std::to_string(c.at(2) % 100000); }};
}
